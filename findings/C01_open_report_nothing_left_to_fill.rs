// property=C01 harness=c01_orders::c01_q_cifs_snap_open
// replay: /verif/check C01 --replay /verif/replays/C01_c01_q_cifs_snap_open.rs
/// Test generated for harness `c01_orders::c01_q_cifs_snap_open` 
///
/// Check for `assertion`: ""C01: tracked state differs from the documented lifecycle""
///
/// # Warning
///
/// Concrete playback tests combined with stubs or contracts is highly
/// experimental, and subject to change.
///
/// The original harness has stubs which are not applied to this test.
/// This may cause a mismatch of non-deterministic values if the stub
/// creates any non-deterministic value.
/// The execution path may also differ, which can be used to refine the stub
/// logic.

#[test]
fn kani_concrete_playback_c01_q_cifs_snap_open_8333005389655556905() {
    let concrete_vals: Vec<Vec<u8>> = vec![
        // 0
        vec![0],
        // 1
        vec![1],
        // 1
        vec![1],
        // 0
        vec![0],
        // 0
        vec![0],
        // 2
        vec![2],
    ];
    kani::concrete_playback_run(concrete_vals, crate::c01_orders::c01_q_cifs_snap_open);
}

/// Test generated for harness `c01_orders::c01_q_cifs_snap_open` 
///
/// Check for `cover`: "cell reached"
///
/// # Warning
///
/// Concrete playback tests combined with stubs or contracts is highly
/// experimental, and subject to change.
///
/// The original harness has stubs which are not applied to this test.
/// This may cause a mismatch of non-deterministic values if the stub
/// creates any non-deterministic value.
/// The execution path may also differ, which can be used to refine the stub
/// logic.

#[test]
fn kani_concrete_playback_c01_q_cifs_snap_open_1544270707227197391() {
    let concrete_vals: Vec<Vec<u8>> = vec![
        // 0
        vec![0],
        // 0
        vec![0],
        // 0
        vec![0],
        // 2
        vec![2],
        // 3
        vec![3],
        // 1
        vec![1],
    ];
    kani::concrete_playback_run(concrete_vals, crate::c01_orders::c01_q_cifs_snap_open);
}

/// Test generated for harness `c01_orders::c01_q_cifs_snap_open` 
///
/// Check for `cover`: "stale open report ignored"
///
/// # Warning
///
/// Concrete playback tests combined with stubs or contracts is highly
/// experimental, and subject to change.
///
/// The original harness has stubs which are not applied to this test.
/// This may cause a mismatch of non-deterministic values if the stub
/// creates any non-deterministic value.
/// The execution path may also differ, which can be used to refine the stub
/// logic.

#[test]
fn kani_concrete_playback_c01_q_cifs_snap_open_5205240196527517862() {
    let concrete_vals: Vec<Vec<u8>> = vec![
        // 3
        vec![3],
        // 1
        vec![1],
        // 3
        vec![3],
        // 2
        vec![2],
        // 0
        vec![0],
        // 1
        vec![1],
    ];
    kani::concrete_playback_run(concrete_vals, crate::c01_orders::c01_q_cifs_snap_open);
}

