// property=C16 harness=c16_tearsheet::c16_q_generate
// replay: /verif/check C16 --replay /verif/replays/C16_c16_q_generate.rs
/// Test generated for harness `c16_tearsheet::c16_q_generate` 
///
/// Check for `assertion`: ""C16: win rate != fraction of non-negative returns""
///
/// # Warning
///
/// Concrete playback tests combined with stubs or contracts is highly
/// experimental, and subject to change.
///
/// The original harness has stubs which are not applied to this test.
/// This may cause a mismatch of non-deterministic values if the stub
/// creates any non-deterministic value.
/// The execution path may also differ, which can be used to refine the stub
/// logic.

#[test]
fn kani_concrete_playback_c16_q_generate_13910800259218630937() {
    let concrete_vals: Vec<Vec<u8>> = vec![
        // 1
        vec![1],
        // 2
        vec![2],
        // 2
        vec![2],
        // 2
        vec![2],
        // 1
        vec![1],
        // 2
        vec![2],
        // -3
        vec![253],
        // -2
        vec![254],
        // 0
        vec![0],
        // 0
        vec![0],
        // 0
        vec![0],
        // 0
        vec![0],
        // 0
        vec![0],
        // 0
        vec![0],
        // 0
        vec![0],
    ];
    kani::concrete_playback_run(concrete_vals, crate::c16_tearsheet::c16_q_generate);
}

/// Test generated for harness `c16_tearsheet::c16_q_generate` 
///
/// Check for `assertion`: ""C16: profit factor without wins is not the documented MIN""
///
/// # Warning
///
/// Concrete playback tests combined with stubs or contracts is highly
/// experimental, and subject to change.
///
/// The original harness has stubs which are not applied to this test.
/// This may cause a mismatch of non-deterministic values if the stub
/// creates any non-deterministic value.
/// The execution path may also differ, which can be used to refine the stub
/// logic.

#[test]
fn kani_concrete_playback_c16_q_generate_16188122384824700312() {
    let concrete_vals: Vec<Vec<u8>> = vec![
        // 1
        vec![1],
        // 1
        vec![1],
        // 0
        vec![0],
        // 2
        vec![2],
        // 1
        vec![1],
        // 1
        vec![1],
        // -3
        vec![253],
        // -2
        vec![254],
        // 0
        vec![0],
        // 0
        vec![0],
        // 0
        vec![0],
        // 0
        vec![0],
        // 0
        vec![0],
        // 0
        vec![0],
        // 0
        vec![0],
    ];
    kani::concrete_playback_run(concrete_vals, crate::c16_tearsheet::c16_q_generate);
}

/// Test generated for harness `c16_tearsheet::c16_q_generate` 
///
/// Check for `assertion`: ""C16: profit factor != gross wins / gross losses""
///
/// # Warning
///
/// Concrete playback tests combined with stubs or contracts is highly
/// experimental, and subject to change.
///
/// The original harness has stubs which are not applied to this test.
/// This may cause a mismatch of non-deterministic values if the stub
/// creates any non-deterministic value.
/// The execution path may also differ, which can be used to refine the stub
/// logic.

#[test]
fn kani_concrete_playback_c16_q_generate_12032904795855364530() {
    let concrete_vals: Vec<Vec<u8>> = vec![
        // 1
        vec![1],
        // 1
        vec![1],
        // 2
        vec![2],
        // 2
        vec![2],
        // 2
        vec![2],
        // 2
        vec![2],
        // -3
        vec![253],
        // -2
        vec![254],
        // 0
        vec![0],
        // 0
        vec![0],
        // 1
        vec![1],
        // 0
        vec![0],
        // 0
        vec![0],
        // 0
        vec![0],
        // 0
        vec![0],
    ];
    kani::concrete_playback_run(concrete_vals, crate::c16_tearsheet::c16_q_generate);
}

/// Test generated for harness `c16_tearsheet::c16_q_generate` 
///
/// Check for `assertion`: ""C16: profit factor != gross wins / gross losses""
///
/// # Warning
///
/// Concrete playback tests combined with stubs or contracts is highly
/// experimental, and subject to change.
///
/// The original harness has stubs which are not applied to this test.
/// This may cause a mismatch of non-deterministic values if the stub
/// creates any non-deterministic value.
/// The execution path may also differ, which can be used to refine the stub
/// logic.

#[test]
fn kani_concrete_playback_c16_q_generate_13372077143068198958() {
    let concrete_vals: Vec<Vec<u8>> = vec![
        // 2
        vec![2],
        // 2
        vec![2],
        // 2
        vec![2],
        // 2
        vec![2],
        // 3
        vec![3],
        // 1
        vec![1],
        // -3
        vec![253],
        // 1
        vec![1],
        // 0
        vec![0],
        // 0
        vec![0],
        // 1
        vec![1],
        // 0
        vec![0],
        // 0
        vec![0],
        // 0
        vec![0],
        // 0
        vec![0],
    ];
    kani::concrete_playback_run(concrete_vals, crate::c16_tearsheet::c16_q_generate);
}

/// Test generated for harness `c16_tearsheet::c16_q_generate` 
///
/// Check for `cover`: "no positions"
///
/// # Warning
///
/// Concrete playback tests combined with stubs or contracts is highly
/// experimental, and subject to change.
///
/// The original harness has stubs which are not applied to this test.
/// This may cause a mismatch of non-deterministic values if the stub
/// creates any non-deterministic value.
/// The execution path may also differ, which can be used to refine the stub
/// logic.

#[test]
fn kani_concrete_playback_c16_q_generate_3728628136412405211() {
    let concrete_vals: Vec<Vec<u8>> = vec![
        // 0
        vec![0],
        // 0
        vec![0],
        // 3
        vec![3],
        // 0
        vec![0],
        // 3
        vec![3],
        // 3
        vec![3],
        // 0
        vec![0],
        // 3
        vec![3],
        // 3
        vec![3],
        // 3
        vec![3],
        // 0
        vec![0],
    ];
    kani::concrete_playback_run(concrete_vals, crate::c16_tearsheet::c16_q_generate);
}

/// Test generated for harness `c16_tearsheet::c16_q_generate` 
///
/// Check for `cover`: "wins and losses"
///
/// # Warning
///
/// Concrete playback tests combined with stubs or contracts is highly
/// experimental, and subject to change.
///
/// The original harness has stubs which are not applied to this test.
/// This may cause a mismatch of non-deterministic values if the stub
/// creates any non-deterministic value.
/// The execution path may also differ, which can be used to refine the stub
/// logic.

#[test]
fn kani_concrete_playback_c16_q_generate_11429013588443981105() {
    let concrete_vals: Vec<Vec<u8>> = vec![
        // 1
        vec![1],
        // 1
        vec![1],
        // 1
        vec![1],
        // 2
        vec![2],
        // 1
        vec![1],
        // 1
        vec![1],
        // -3
        vec![253],
        // 0
        vec![0],
        // 0
        vec![0],
        // 0
        vec![0],
        // 3
        vec![3],
        // 0
        vec![0],
        // 0
        vec![0],
        // 0
        vec![0],
        // 1
        vec![1],
    ];
    kani::concrete_playback_run(concrete_vals, crate::c16_tearsheet::c16_q_generate);
}

