// FINDING C15 (repaired by the "fix:" commit that follows 3016f07 in /repo): the engine entry point for market
// items, EngineState::update_from_market, only forwarded the event to the instrument's market-data state and never
// re-valued the open position, so Position::pnl_unrealised stayed at the value computed at the last FILL price.
// Found by the solver in harnesses c15_q_engine_{long,short}_{trade,l1}; this file is the native demonstration.
//
// Place at: barter/tests/c15_engine_market_event_refreshes_unrealised.rs
// Run with: CARGO_NET_OFFLINE=true CARGO_PROFILE_DEV_DEBUG=0 CARGO_PROFILE_TEST_DEBUG=0 \
//           cargo test -p barter --test c15_engine_market_event_refreshes_unrealised --offline
// Fails on the tree before the fix (pnl_unrealised stays 0 - estimate at the fill price), passes after it.
use barter::engine::state::{
    EngineState, global::DefaultGlobalData, instrument::data::{DefaultInstrumentMarketData, InstrumentDataState},
    trading::TradingState,
};
use barter_data::{event::{DataKind, MarketEvent}, subscription::trade::PublicTrade};
use barter_execution::{
    AccountEvent, AccountEventKind,
    order::id::{OrderId, StrategyId},
    trade::{AssetFees, Trade, TradeId},
};
use barter_instrument::{
    Side, Underlying,
    exchange::{ExchangeId, ExchangeIndex},
    index::IndexedInstruments,
    instrument::{Instrument, InstrumentIndex},
};
use chrono::{DateTime, TimeDelta, Utc};
use rust_decimal::Decimal;
use rust_decimal_macros::dec;

#[test]
fn market_event_through_the_engine_state_refreshes_unrealised_pnl() {
    let instruments = IndexedInstruments::builder()
        .add_instrument(Instrument::spot(ExchangeId::BinanceSpot, "binance_spot_btc_usdt", "BTCUSDT", Underlying::new("btc", "usdt"), None))
        .build();
    let t0 = DateTime::<Utc>::MIN_UTC;
    let mut state = EngineState::builder(&instruments, DefaultGlobalData::default(), DefaultInstrumentMarketData::default)
        .time_engine_start(t0)
        .trading_state(TradingState::Disabled)
        .build();

    // fill: buy 2 @ 100, no fee  -> long 2 @ 100
    let fill = AccountEvent {
        exchange: ExchangeIndex(0),
        kind: AccountEventKind::Trade(Trade {
            id: TradeId::new("t1"), order_id: OrderId::new("o1"), instrument: InstrumentIndex(0), strategy: StrategyId::new("s"),
            time_exchange: t0 + TimeDelta::seconds(1), side: Side::Buy, price: dec!(100), quantity: dec!(2), fees: AssetFees::quote_fees(dec!(0)),
        }),
    };
    assert!(state.update_from_account(&fill).is_none());

    // market trade at 110 processed through the ENGINE STATE entry point
    let market = MarketEvent {
        time_exchange: t0 + TimeDelta::seconds(2), time_received: t0 + TimeDelta::seconds(2), exchange: ExchangeId::BinanceSpot,
        instrument: InstrumentIndex(0),
        kind: DataKind::Trade(PublicTrade { id: "m1".into(), price: 110.0, amount: 1.0, side: Side::Buy }),
    };
    state.update_from_market(&market);

    let instrument = state.instruments.instrument_index(&InstrumentIndex(0));
    assert_eq!(instrument.data.price(), Some(dec!(110)));
    let position = instrument.position.current.as_ref().expect("position open");
    // documented estimate at the instrument's current price: 2 * (110 - 100) - (2/2) * 0 = 20
    assert_eq!(position.pnl_unrealised, Decimal::from(20), "unrealised PnL left at a value computed from an older price");
}
