// property=C15 harness=c15_unrealised::c15_q_fill_open_buy
// replay: /verif/check C15 --replay /verif/replays/C15_c15_q_fill_open_buy.rs
/// Test generated for harness `c15_unrealised::c15_q_fill_open_buy` 
///
/// Check for `assertion`: ""C15: a freshly opened position's unrealised PnL is not the estimate at the fill price""
///
/// # Warning
///
/// Concrete playback tests combined with stubs or contracts is highly
/// experimental, and subject to change.
///
/// The original harness has stubs which are not applied to this test.
/// This may cause a mismatch of non-deterministic values if the stub
/// creates any non-deterministic value.
/// The execution path may also differ, which can be used to refine the stub
/// logic.

#[test]
fn kani_concrete_playback_c15_q_fill_open_buy_2538664843975712369() {
    let concrete_vals: Vec<Vec<u8>> = vec![
        // 1
        vec![1],
        // 1
        vec![1],
        // 1
        vec![1],
    ];
    kani::concrete_playback_run(concrete_vals, crate::c15_unrealised::c15_q_fill_open_buy);
}

/// Test generated for harness `c15_unrealised::c15_q_fill_open_buy` 
///
/// Check for `cover`: "position open after the fill"
///
/// # Warning
///
/// Concrete playback tests combined with stubs or contracts is highly
/// experimental, and subject to change.
///
/// The original harness has stubs which are not applied to this test.
/// This may cause a mismatch of non-deterministic values if the stub
/// creates any non-deterministic value.
/// The execution path may also differ, which can be used to refine the stub
/// logic.

#[test]
fn kani_concrete_playback_c15_q_fill_open_buy_6565368367214739988() {
    let concrete_vals: Vec<Vec<u8>> = vec![
        // 3
        vec![3],
        // 3
        vec![3],
        // 0
        vec![0],
    ];
    kani::concrete_playback_run(concrete_vals, crate::c15_unrealised::c15_q_fill_open_buy);
}

