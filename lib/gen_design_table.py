#!/usr/bin/env python3
"""Regenerates the 'as built' per-property section (8.8) of DESIGN.md from lib/props.py and lib/not_applicable.json."""
import json, os, re, sys
sys.path.insert(0, os.path.dirname(os.path.abspath(__file__)))
from props import PROPS
ROOT = os.path.dirname(os.path.dirname(os.path.abspath(__file__)))
na = json.load(open(os.path.join(ROOT, "lib", "not_applicable.json")))
out = ["### 8.8 Per-property summary as built (generated from lib/props.py by lib/gen_design_table.py)\n",
       "This section supersedes section 4 wherever they differ. `hook` = built with `--cfg barter_rs_barter_rs_verif`.\n"]
for pid in sorted(PROPS):
    c = PROPS[pid]
    b = c["bounds"]
    out.append(f"\n**{pid}** ({'hook' if c.get('hook') else 'no hook'}; harness filters quick `{', '.join(c['tiers']['quick']['filters'][:4])}{' ...' if len(c['tiers']['quick']['filters'])>4 else ''}`)\n")
    out.append("* encodes: " + "; ".join(c["functions"]) + "\n")
    out.append("* quick bound: " + (b["quick"] if isinstance(b, dict) else b) + "\n")
    if isinstance(b, dict) and b.get("thorough") and b["thorough"] != "same as quick":
        out.append("* thorough bound: " + b["thorough"] + "\n")
    if c.get("outside"):
        out.append("* outside the claim: " + "; ".join(c["outside"]) + "\n")
    if c.get("assumptions"):
        out.append("* assumptions: " + "; ".join(c["assumptions"]) + "\n")
out.append("\n**Not applicable** (MANIFEST.json `not_applicable`):\n")
for e in na:
    if e["property_id"] not in PROPS:
        out.append(f"* {e['property_id']}: {e['reason']}\n")
text = "".join(out)
p = os.path.join(ROOT, "DESIGN.md")
s = open(p).read()
marker = "### 8.8 Per-property summary as built"
if marker in s:
    s = s[:s.index(marker)]
s = s.rstrip("\n") + "\n\n" + text
open(p, "w").write(s)
print("DESIGN.md section 8.8 regenerated")
