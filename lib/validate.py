#!/usr/bin/env python3
"""Validates MANIFEST.json and evidence/*.json against the given schemas (tooling venv: python3-vt)."""
import glob, json, sys
import jsonschema
ok = True
def v(path, schema):
    global ok
    try:
        jsonschema.validate(json.load(open(path)), json.load(open(schema)))
        print("valid", path)
    except Exception as e:
        ok = False
        print("INVALID", path, str(e)[:500])
v('/verif/MANIFEST.json', '/root/.vp/MANIFEST.schema.json')
for p in sorted(glob.glob('/verif/evidence/*.json')):
    v(p, '/root/.vp/EVIDENCE.schema.json')
sys.exit(0 if ok else 1)
