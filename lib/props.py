"""Per-property configuration of the checks: which harness families form each tier, what they encode,
their bounds and assumptions (copied into every evidence file)."""

COMMON_ASSUMPTIONS = [
    "bounded model checking: the verdict covers every value of every symbolic input within the stated bounds and nothing outside them; "
    "Kani unwinding assertions are enabled, so a too-small loop bound fails the run instead of truncating it",
    "stub: tracing macros are switched off (DefaultCallsite::interest -> never, __is_enabled -> false, Event::dispatch -> nop)",
    "stub: rust_decimal arithmetic (+ - * / cmp checked_*) is replaced by an exact-rational model (numerator < 2^64, denominator < 2^32, "
    "leaving that range fails the run); the real library's 28-digit rounding is outside every claim",
    "stub: chrono::Utc::now returns a fixed instant (time_received is not the subject of any property)",
    "harness values are dropped with mem::forget (drop glue is not part of any claim)",
]
HOOK_ASSUMPTIONS = [
    "hook (--cfg barter_rs_barter_rs_verif): fnv::FnvHashMap / indexmap::IndexMap / FnvIndexMap / FnvIndexSet are replaced by an inline "
    "fixed-capacity insertion-ordered association list with the same observable contract (capacity exceeded = failed run); "
    "hashing and the real containers' internals are outside the claim",
]

PROPS = {}

PROPS["C06"] = {
    "hook": False,
    "functions": [
        "barter_data::exchange::binance::spot::l2::BinanceSpotOrderBookL2Sequencer::{new, validate_sequence, is_first_update, validate_first_update, validate_next_update}",
        "barter_data::exchange::binance::futures::l2::BinanceFuturesUsdOrderBookL2Sequencer::{new, validate_sequence, is_first_update, validate_first_update, validate_next_update}",
        "barter_data::error::DataError::is_terminal",
    ],
    "bounds": {
        "quick": "one step from an ARBITRARY sequencer state with full 64-bit symbolic U/u/pu (ids < u64::MAX); k-step harnesses: k = 4 arbitrary "
                 "messages after new(snapshot id), full 64-bit ids; level lists empty; unwind 26",
        "thorough": "quick + k = 6 chains; sequencer -> OrderBook::update against a reference exchange book (see harness list)",
    },
    "outside": [
        "the `+ 1` overflow of the spot sequencer at last_update_id == u64::MAX (panic in dev, wrap in release)",
        "with_termination_on_error (stream combinator, tokio) - only its predicate DataError::is_terminal is encoded",
        "serde deserialisation of the update payloads; subscription-id routing in Transformer::transform (hash map lookup)",
    ],
    "assumptions": ["venue contract: U <= u within one update (used only by the gap-free liveness harnesses)"],
    "tiers": {
        "quick": {"filters": ["c06_q_", "c06_twin_"], "jobs": 8, "harness_timeout_s": 300, "total_timeout_s": 900},
        "thorough": {"filters": ["c06_"], "jobs": 8, "harness_timeout_s": 1800, "total_timeout_s": 3600},
    },
}
