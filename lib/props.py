"""Per-property configuration of the checks: which harness families form each tier, what they encode,
their bounds and assumptions (copied into every evidence file)."""

COMMON_ASSUMPTIONS = [
    "bounded model checking: the verdict covers every value of every symbolic input within the stated bounds and nothing outside them; "
    "Kani unwinding assertions are enabled, so a too-small loop bound fails the run instead of truncating it",
    "replay: a solver-found violation is confirmed natively (guard off, no stubs, real rust_decimal and hash containers) by walking the harness's "
    "bounded input space (gens::native_search) until the real code fails an assertion; the script of that run is the replay file",
    "stub: tracing macros are switched off (DefaultCallsite::interest -> never, __is_enabled -> false, Event::dispatch -> nop)",
    "stub: rust_decimal arithmetic (+ - * / cmp checked_*) is replaced by an exact-rational model (|numerator| < 2^28, denominator < 2^16, "
    "leaving that range fails the run); the real library's 28-digit rounding is outside every claim",
    "stub: chrono::Utc::now returns a fixed instant (time_received is not the subject of any property)",
    "harness values are dropped with mem::forget (drop glue is not part of any claim)",
    "third-party crate replaced for verification builds: smol_str 0.3.6 vendored with a leaking heap variant, typed clone, content-only equality and "
    "element-wise inline construction (kani/vendor/smol_str; behaviour-preserving except that heap strings leak)",
    "stub: alloc::fmt::format returns an empty string (message texts are never the subject of a property)",
]
HOOK_ASSUMPTIONS = [
    "hook (--cfg barter_rs_barter_rs_verif): fnv::FnvHashMap / indexmap::IndexMap / FnvIndexMap / FnvIndexSet are replaced by an inline "
    "fixed-capacity insertion-ordered association list with the same observable contract (capacity exceeded = failed run); "
    "hashing and the real containers' internals are outside the claim",
]

PROPS = {}

PROPS["C06"] = {
    "hook": False,
    "functions": [
        "barter_data::exchange::binance::spot::l2::BinanceSpotOrderBookL2Sequencer::{new, validate_sequence, is_first_update, validate_first_update, validate_next_update}",
        "barter_data::exchange::binance::futures::l2::BinanceFuturesUsdOrderBookL2Sequencer::{new, validate_sequence, is_first_update, validate_first_update, validate_next_update}",
        "barter_data::error::DataError::is_terminal",
        "barter_data::books::OrderBook::update(Snapshot) - the two C05 book-snapshot harnesses: re-initialisation after a terminal sequence error REPLACES the "
        "local book (levels, sequence), whatever the sequence numbers",
    ],
    "bounds": {
        "quick": "one step from an ARBITRARY sequencer state with full 64-bit symbolic U/u/pu (ids < u64::MAX); k-step harnesses: k = 4 arbitrary "
                 "messages after new(snapshot id), full 64-bit ids; level lists empty; unwind 26",
        "thorough": "quick + k = 6 chain-safety harnesses for both rule sets + the C05 book-level Update harness",
    },
    "outside": [
        "the `+ 1` overflow of the spot sequencer at last_update_id == u64::MAX (panic in dev, wrap in release)",
        "with_termination_on_error (stream combinator, tokio) - only its predicate DataError::is_terminal is encoded",
        "serde deserialisation of the update payloads; subscription-id routing in Transformer::transform (hash map lookup)",
    ],
    "assumptions": ["venue contract: U <= u within one update (used only by the gap-free liveness harnesses)"],
    "tiers": {
        "quick": {"filters": ["c06_q_", "c06_twin_", "c05_q_book_snapshot"], "jobs": 9, "harness_timeout_s": 700, "total_timeout_s": 1500},
        "thorough": {"filters": ["c06_", "c05_q_book_"], "jobs": 10, "harness_timeout_s": 1800, "total_timeout_s": 3600},
    },
}

PROPS["C02"] = {
    "hook": False,
    "functions": [
        "barter::engine::state::position::PositionManager::update_from_trade",
        "barter::engine::state::position::Position::{update_from_trade, update_price_entry_average, update_pnl_realised, update_pnl_unrealised, from(&Trade)}",
        "barter::engine::state::position::{calculate_price_entry_average, calculate_pnl_realised, calculate_pnl_unrealised, approximate_remaining_exit_fees}",
        "barter::engine::state::position::PositionExited::from(Position)",
    ],
    "bounds": {
        "quick": "one inductive step from an ARBITRARY open position (or none): quantities/prices in 1..3, fees 0..3, realised/unrealised PnL in -3..3 "
                 "(2-bit integers), integer entry price; 10 cells = pre-side x fill-side x {reduce, exact close, flip}; instantiation "
                 "Position<QuoteAsset, InstrumentIndex>; unwind 26",
        "thorough": "the same cells with 3-bit integers (1..7) and a rational average entry price n/d, d <= 2; plus a direct two-fill history from flat "
                    "(2-bit values, both sides symbolic) and three- and four-fill histories from flat (prices / quantities 1..3, fees 0..1, sides symbolic: repeated flips reachable; the four-fill "
                    "query takes ~26 min) "
                    "checking the telescoped identity end to end",
    },
    "outside": ["28-digit rounding of rust_decimal (the property says 'up to decimal rounding'); magnitudes beyond the stated bit-widths",
                "InstrumentState::update_from_trade wiring (covered under C15 / engine-level harnesses)"],
    "assumptions": ["fill domain of the property: price > 0, quantity > 0, fee >= 0", "pre-state: quantity_abs_max >= quantity_abs >= 1, entry price > 0 (representation invariant of an open position)"],
    "tiers": {
        "quick": {"filters": ["c02_q_", "c02_twin_"], "jobs": 12, "harness_timeout_s": 600, "total_timeout_s": 1500},
        "thorough": {"filters": ["c02_"], "jobs": 10, "harness_timeout_s": 3000, "total_timeout_s": 7000, "mem_gb": 10},
    },
}

PROPS["C17"] = {
    "hook": False,
    "functions": [
        "barter::statistic::summary::dataset::DataSetSummary::update",
        "barter::statistic::algorithm::welford_online::{calculate_mean::<Decimal>, calculate_recurrence_relation_m, calculate_population_variance}",
        "barter::statistic::summary::dataset::dispersion::{Dispersion::update, Range::update}",
    ],
    "bounds": {
        "quick": "one inductive step from an ARBITRARY invariant-satisfying summary: n <= 3 previous values, each in [-3,3] (ghost sums S, Q consistent "
                 "with that and n*Q >= S^2), next value in [-3,3]; plus a direct 3-value/two-orders harness from the empty summary; unwind 8",
        "thorough": "quick + step with n <= 5 previous values in [-7,7]",
    },
    "outside": ["rounding-level effects (tiny negative variance from 28-digit rounding); the numeric value of sqrt (uninterpreted)"],
    "assumptions": ["stub: Decimal::sqrt is an injective uninterpreted-style function (x -> x+1 on non-negative in-range values); the check asserts "
                    "std_dev == sqrt(|variance|), i.e. that sqrt is applied to the right argument, not its numeric value",
                    "pre-state invariant: count=n, sum=S, mean=S/n, M=Q-S^2/n, variance=M/n, low<=mean<=high, n*Q>=S^2"],
    "tiers": {
        "quick": {"filters": ["c17_q_", "c17_twin_"], "jobs": 4, "harness_timeout_s": 600, "total_timeout_s": 1500},
        "thorough": {"filters": ["c17_"], "jobs": 4, "harness_timeout_s": 3000, "total_timeout_s": 7000},
    },
}

PROPS["C18"] = {
    "hook": False,
    "functions": [
        "barter::statistic::metric::drawdown::DrawdownGenerator::{init, update, generate}",
        "barter::statistic::metric::drawdown::max::MaxDrawdownGenerator::{init, update, generate}",
        "barter::statistic::metric::drawdown::mean::MeanDrawdownGenerator::{update, generate}",
        "barter::statistic::algorithm::welford_online::calculate_mean::<Decimal> / ::<i64>",
        "barter::statistic::metric::drawdown::Drawdown::duration",
        "barter::statistic::summary::asset::TearSheetAssetGenerator::{init, update_from_balance} (feeding of the three generators)",
    ],
    "bounds": {
        "quick": "generator: one step from an ARBITRARY state (peak in 1..7, trough in -7..peak, three ordered timestamps < 8 s) with a point in -7..7; "
                 "curve: 4 points (first 1..3, others -3..3) against an independent quadratic peak-to-trough decomposition; max: arbitrary current "
                 "(or none) and next drawdown, depths n/d with n<8,d<=3; mean: count <= 4, depth sum n/d (n<16,d<=3), mean duration <= 8000 ms; unwind 8",
        "thorough": "quick + generator step with 4-bit values + curve of 5 points with 3-bit values",
    },
    "outside": ["curves whose running maximum is not positive (the property's own precondition)",
                "the feeding of the PnL generators by TearSheetGenerator::update_from_position (pnl_raw bookkeeping is checked under C16)"],
    "assumptions": ["mean duration: the implementation's integer-millisecond truncating recurrence is asserted as such (plus: result lies between its operands)",
                    "a drawdown's start is the FIRST time its running maximum was attained (equal later values do not move it)"],
    "tiers": {
        "quick": {"filters": ["c18_q_", "c18_twin_"], "jobs": 8, "harness_timeout_s": 600, "total_timeout_s": 1500},
        "thorough": {"filters": ["c18_"], "jobs": 8, "harness_timeout_s": 3000, "total_timeout_s": 7000},
    },
}

PROPS["C16"] = {
    "hook": True,
    "functions": [
        "barter::statistic::summary::instrument::TearSheetGenerator::{update_from_position, generate::<TimeDelta>}",
        "barter::statistic::summary::pnl::PnLReturns::update",
        "barter::engine::state::position::calculate_pnl_return",
        "barter::statistic::metric::win_rate::WinRate::calculate",
        "barter::statistic::metric::profit_factor::ProfitFactor::calculate",
        "barter::statistic::summary::dataset::DataSetSummary::update (count / sum)",
        "barter::statistic::summary::TradingSummaryGenerator::update_from_position::<QuoteAsset, InstrumentIndex> + InstrumentTearSheetManager<InstrumentIndex> "
        "(2-instrument summary: the position's instrument gains exactly this position, the other is untouched, clock = latest time)",
    ],
    "bounds": {
        "quick": "(a) update: ARBITRARY invariant state with <= 2 wins and <= 2 losses, win/loss return sums n/d (n<4, d<=2), raw PnL -3..3; closed position "
                 "with realised PnL -3..3, entry price 1..3, max quantity 1..3. (b) generate on an arbitrary invariant state of the same shape; interval "
                 "TimeDelta::seconds(2), risk-free return 0; (c) trading summary with 2 instruments (<= 1 win / loss each), position for a concrete "
                 "instrument with exit time before / equal / after the summary clock; unwind 8-12",
        "thorough": "quick + update with <= 4 wins/losses (2-bit values) and generate with <= 4 wins/losses and 3-bit values",
    },
    "outside": ["Sharpe / Sortino / Calmar / rate-of-return values (sqrt and time scaling are stubbed; not part of the property)",
                "TradingSummaryGenerator::{init, generate, update_from_balance} (only update_from_position is encoded)",
                "negative zero returns (rounding-level)"],
    "assumptions": ["model: checked_mul/checked_div return None when an operand is outside the model range (Decimal::MAX markers of the ratio metrics)",
                    "invariant J: pnl_raw = P, total.count = W+L, total.sum = SW+SL, losses.count = L, losses.sum = SL (SL < 0 when L > 0)"],
    "tiers": {
        "quick": {"filters": ["c16_q_", "c16_twin_"], "jobs": 4, "harness_timeout_s": 600, "total_timeout_s": 1500},
        "thorough": {"filters": ["c16_"], "jobs": 6, "harness_timeout_s": 3000, "total_timeout_s": 7000},
    },
}

PROPS["C14"] = {
    "hook": True,
    "functions": [
        "barter::engine::state::connectivity::ConnectivityStates::{update_from_market_event, update_from_account_event, update_from_market_reconnecting, update_from_account_reconnecting}",
        "barter::engine::state::connectivity::ConnectivityStates::{connectivity, connectivity_mut, connectivity_index, connectivity_index_mut, exchange_states}",
        "barter::engine::state::connectivity::ConnectivityState::all_healthy",
        "thorough: barter::engine::Engine::{update_from_market_stream, update_from_account_stream} (Reconnecting arm) with a counting OnDisconnectStrategy",
    ],
    "bounds": {
        "quick": "one inductive step from an ARBITRARY invariant-satisfying state over 3 exchanges (6 symbolic health flags), symbolic operation target; "
                 "plus the 2-step drop-then-recover sequence; unwind 6",
        "thorough": "quick + Engine::update_from_{market,account}_stream(Reconnecting(x)) on a literal 2-exchange engine state with arbitrary link health, "
                    "symbolic exchange and stream kind, and a counting OnDisconnectStrategy",
    },
    "outside": ["more than 3 exchanges (the step is uniform in the number of exchanges; capacity of the stand-in container is 4)"],
    "assumptions": ["pre-state invariant: global == Healthy <=> all links healthy (established by generate_empty_indexed_connectivity_states: all reconnecting)"],
    "tiers": {
        "quick": {"filters": ["c14_q_", "c14_twin_"], "jobs": 6, "harness_timeout_s": 600, "total_timeout_s": 1500},
        "thorough": {"filters": ["c14_"], "jobs": 6, "harness_timeout_s": 3000, "total_timeout_s": 7000},
    },
}

PROPS["C01"] = {
    "hook": True,
    "functions": [
        "barter::engine::state::order::Orders::{update_from_order_snapshot, update_from_cancel_response, record_in_flight_open, record_in_flight_cancel} "
        "(instantiation Orders<ExchangeIndex, InstrumentIndex>, AssetKey = AssetIndex)",
        "barter_execution::order::Order::{to_active, from(&OrderRequestOpen)}",
        "barter_execution::order::state::{Open::quantity_remaining, ActiveOrderState::open_meta}",
    ],
    "bounds": {
        "quick": "60 cells = pre-state kind {untracked, OpenInFlight, Open, CancelInFlight(None), CancelInFlight(Some)} x input kind {open request, cancel "
                 "request, snapshot of each of the 8 OrderState shapes, cancel Ok, cancel Err}; per cell symbolic: both exchange timestamps (0..3 s), both "
                 "filled quantities (0..2 of quantity 2), bystander payload; bystander order of concrete kind (rotated over cells) before or after the "
                 "subject in the map; unwind 26",
        "thorough": "quick + every cell with every bystander kind (240 more harnesses)",
    },
    "outside": ["EngineState::update_from_account routing of OrderSnapshot / OrderCancelled / Snapshot to the instrument's Orders (engine-level)",
                "more than two concurrent order ids per instrument (reports only address one id; the bystander stands for all others)",
                "cells where the property text does not pin the outcome exactly (failed cancel without a remembered open state; duplicate cancel-in-flight "
                "recordings): only the generic clauses are asserted there"],
    "assumptions": ["a tracked Open / CancelInFlight(Some) pre-state has something left to fill (otherwise it would already have stopped being tracked)"],
    "tiers": {
        "quick": {"filters": ["c01_q_", "c01_twin_"], "jobs": 16, "harness_timeout_s": 900, "total_timeout_s": 2400, "mem_gb": 8},
        "thorough": {"filters": ["c01_"], "jobs": 14, "harness_timeout_s": 1800, "total_timeout_s": 10000, "mem_gb": 6},
    },
}

PROPS["C15"] = {
    "hook": True,
    "functions": [
        "barter::engine::state::EngineState::<DefaultGlobalData, DefaultInstrumentMarketData>::update_from_market (engine entry point for market items)",
        "barter::engine::state::instrument::InstrumentState::update_from_market",
        "barter::engine::state::instrument::data::DefaultInstrumentMarketData::{process(&MarketEvent), price}",
        "barter_data::subscription::book::OrderBookL1::volume_weighed_mid_price, barter_data::books::volume_weighted_mid_price",
        "barter::engine::state::position::{Position::update_pnl_unrealised, calculate_pnl_unrealised, approximate_remaining_exit_fees}",
        "barter::engine::state::position::PositionManager::update_from_trade (post-fill value)",
        "barter::engine::state::connectivity::ConnectivityStates::update_from_market_event, InstrumentStates::instrument_index_mut",
        "two-instrument engine state: the event's instrument is re-valued, the other instrument is untouched",
    ],
    "bounds": {
        "quick": "literally constructed engine state: 2 exchanges, 1 instrument with an ARBITRARY open position (2-bit quantities, side concrete per harness), "
                 "arbitrary held market data (top of book with either side possibly missing, last trade, timestamps 0..3 s); one arbitrary priced market "
                 "event (public trade at an integer price, or a top-of-book update); plus post-fill cells at 2 bits; unwind 26",
        "thorough": "quick + the same kernel / engine harnesses at 3 bits",
    },
    "outside": ["Engine::process wiring around EngineState::update_from_market (clock, audit, algo-order generation)",
                "market event kinds that never yield a price (candles, liquidations, L2 book events) - the default instrument data ignores them",
                "28-digit rounding"],
    "assumptions": ["stub: Decimal::from_f64 defined on small non-negative integer prices", "connector contract: an L1 event's last_update_time equals its exchange time"],
    "tiers": {
        "quick": {"filters": ["c15_q_", "c15_twin_"], "jobs": 14, "harness_timeout_s": 1200, "total_timeout_s": 3000, "mem_gb": 8},
        "thorough": {"filters": ["c15_"], "jobs": 14, "harness_timeout_s": 3000, "total_timeout_s": 9000, "mem_gb": 10},
    },
}

PROPS["C05"] = {
    "hook": False,
    "functions": [
        "barter_data::books::OrderBookSide::<Asks>::{asks, upsert}, OrderBookSide::<Bids>::{bids, upsert}, OrderBookSide::upsert_single, OrderBookSide::levels",
        "barter_data::books::OrderBook::{new, update, snapshot, bids, asks, mid_price, volume_weighed_mid_price}",
        "barter_data::books::{mid_price, volume_weighted_mid_price}",
    ],
    "bounds": {
        "quick": "one step from an ARBITRARY valid side with a CONCRETE number of levels n in {0,1,2} (prices 0..7, amounts 1..3, strictly ordered) and an "
                 "one arbitrary upserted level (amount 0 = delete; front/middle/back inserts, replace, delete, delete-absent all "
                 "reachable), both sides; book-level Update and Snapshot events on a 1+1-level book; unwind 8",
        "thorough": "quick + n = 3 with 1 update, both sides",
    },
    "outside": ["level counts above 3; update lists of more than one level in ONE solver query (a list is applied as a sequence of single upserts, which the one-step harnesses cover by induction; two-element lists did not fit: > 24 GB)",
                "sort_unstable_by inside OrderBookSide::{bids,asks}: for more than 20 levels with duplicate prices in ONE update the relative order of the "
                "duplicates is unspecified (pattern-defeating quicksort) - outside the bounds",
                "OrderBookL2Manager::run (async, RwLock)"],
    "assumptions": ["venue contract: a Snapshot event carries distinct prices with non-zero amounts (the constructor sorts but does not de-duplicate)"],
    "tiers": {
        "quick": {"filters": ["c05_q_", "c05_twin_"], "jobs": 5, "harness_timeout_s": 700, "total_timeout_s": 3000, "mem_gb": 12},
        "thorough": {"filters": ["c05_"], "jobs": 5, "harness_timeout_s": 3000, "total_timeout_s": 9000, "mem_gb": 16},
    },
}

PROPS["C09"] = {
    "hook": True,
    "functions": [
        "barter::engine::state::asset::AssetState::update_from_balance (+ TearSheetAssetGenerator::update_from_balance)",
        "barter::engine::state::instrument::data::DefaultInstrumentMarketData::process(&MarketEvent) - trade and top-of-book arms",
        "barter::engine::state::order::Orders::update_from_order_snapshot - the ten C01 cells whose input carries exchange-reported open-order data "
        "(snapshot Open / CancelInFlight(Some) on every pre-state kind), for the 'never moves back to an older exchange timestamp' assertion",
        "barter::engine::state::EngineState::update_from_account - BalanceSnapshot and full Snapshot items routed to AssetStates::asset_index_mut (2 assets, "
        "concrete target per harness)",
    ],
    "bounds": {
        "quick": "one inductive step from an arbitrary held (timestamp 0..3 s, value) or nothing, with an arbitrary message (timestamp 0..3 s, value): "
                 "balances 0..7, trade prices 1..7, top-of-book levels with either side possibly missing; unwind 26",
        "thorough": "same as quick",
    },
    "outside": ["EngineState::update_from_account routing of order snapshots / cancel responses / trades; full account snapshots carrying several items or instrument order lists"],
    "assumptions": ["connector contract (true for both L1 connectors in the tree): an L1 event's last_update_time equals its exchange time",
                    "stub: Decimal::from_f64 defined on small non-negative integers"],
    "tiers": {
        "quick": {"filters": ["c09_q_", "c09_twin_", "c01_q_untracked_snap_open", "c01_q_oif_snap_open", "c01_q_open_snap_open", "c01_q_cifn_snap_open",
                              "c01_q_cifs_snap_open", "c01_q_untracked_snap_cifs", "c01_q_oif_snap_cifs", "c01_q_open_snap_cifs", "c01_q_cifn_snap_cifs",
                              "c01_q_cifs_snap_cifs"], "jobs": 14, "harness_timeout_s": 900, "total_timeout_s": 2400, "mem_gb": 8},
        "thorough": {"filters": ["c09_", "_snap_open", "_snap_cifs"], "jobs": 14, "harness_timeout_s": 3000, "total_timeout_s": 9000, "mem_gb": 8},
    },
}

PROPS["C04"] = {
    "hook": True,
    "functions": [
        "barter_execution::map::ExecutionInstrumentMap::{new, find_asset_name_exchange, find_asset_index, find_instrument_name_exchange, "
        "find_instrument_index, find_exchange_id, find_exchange_index}",
        "barter_execution::indexer::AccountEventIndexer::{order_request, asset_balance, order_response_cancel, order_key}",
    ],
    "bounds": {
        "quick": "concrete configuration family: 2 exchanges, global assets [ex0:btc, ex0:usdt, ex1:btc, ex1:usdt, ex1:eth] (shared names, global index != "
                 "per-exchange position), global instruments [ex0:btcusdt, ex1:xbtusdt, ex1:ethusdt]; per exchange link: symbolic global asset index 0..6, "
                 "instrument index 0..4 (own / foreign / out of range), symbolic name among own / foreign / unknown, symbolic exchange index; inbound cancel response with symbolic exchange id (own / foreign / third) x "
                 "symbolic instrument name; unwind 26",
        "thorough": "quick + inbound balance and inbound cancel response on exchange 0",
    },
    "outside": ["configurations outside the family (strings cannot be symbolic); generate_execution_instrument_map's filter over IndexedInstruments "
                "(builder runs over heap Vecs of string-keyed records); ExecutionManager::run (tokio)",
                "inbound order snapshots / trade events / account snapshots (same order_key / find_instrument_index / find_asset_index lookups as the checked ones, "
                "but their own field plumbing is not executed)"],
    "assumptions": ["the per-exchange (global index, name) tables handed to ExecutionInstrumentMap::new are those of the exchange, in global index order"],
    "tiers": {
        "quick": {"filters": ["c04_q_", "c04_twin_"], "jobs": 8, "harness_timeout_s": 900, "total_timeout_s": 2400, "mem_gb": 8},
        "thorough": {"filters": ["c04_"], "jobs": 8, "harness_timeout_s": 3000, "total_timeout_s": 9000, "mem_gb": 8},
    },
}

PROPS["C03"] = {
    "hook": True,
    "functions": [
        "barter::engine::action::send_requests::SendRequests::send_request for Engine<(), Recorder, Links, Script, Gate> (harness types for state / links / strategy / risk)",
        "barter::engine::execution_tx::MultiExchangeTxMap::<RecordingTx>::{from_iter, find} (the real link table, with a link-less exchange in front)",
        "barter::engine::Engine::process for Engine<LiveClock, EngineState, Links, Probe, DefaultRiskManager> on TradingStateUpdate(Disabled) and Shutdown events "
        "(+ update_from_trading_state_update, TradingState::update, EngineAudit construction)",
        "barter::engine::state::order::in_flight_recorder::InFlightRequestRecorder for EngineState::{record_in_flight_opens, record_in_flight_open} "
        "+ InstrumentStates::instrument_index_mut + Orders::record_in_flight_open",
    ],
    "bounds": {
        "quick": "send_request: one open request with a symbolic exchange index in {0, 1, 2 = unknown} against 2 execution links with a SYMBOLIC fault "
                 "pattern each {healthy, closed, unhealthy, missing}; in-flight routing: literal 2-instrument engine state, concrete target instrument per harness; "
                 "gating: Engine::process(TradingStateUpdate(Disabled)) while enabled on a literal 1-instrument engine with a counting strategy; unwind 10-12",
        "thorough": "quick + Engine::process(TradingStateUpdate(Disabled)) while disabled and Engine::process(Shutdown) while enabled",
    },
    "outside": ["the batch actions send_requests / generate_algo_orders / close_positions / cancel_orders (partition into sent / errors, refused requests, "
                "record-in-flight of exactly the sent ones): attempted in drafts/c03_requests_full.rs; one request through send_requests already exhausts 20 GB "
                "(Vec<(request, EngineError)> of solver-unknown length; every EngineError owns a String whose deallocation CBMC explores on unknown pointers)",
                "Engine::process on any event that ends with trading ENABLED (it then calls the batch action generate_algo_orders: no result in 30 min even for a "
                "strategy that generates nothing), i.e. 're-enabling resumes generation on that very event'; market / account events through Engine::process while "
                "disabled (no result in 25 min; the state update itself is checked at the EngineState entry point under C15 / C09); commands",
                "per-order in-flight state transitions (checked under C01: record_in_flight_open / record_in_flight_cancel on every pre-state)"],
    "assumptions": ["harness types: recording Tx whose send() fails per the fault pattern, link table implementing ExecutionTxMap"],
    "tiers": {
        "quick": {"filters": ["c03_q_", "c03_twin_"], "jobs": 3, "harness_timeout_s": 1200, "total_timeout_s": 3000, "mem_gb": 12},
        "thorough": {"filters": ["c03_"], "jobs": 3, "harness_timeout_s": 3000, "total_timeout_s": 9000, "mem_gb": 12},
    },
}

PROPS["C19"] = {
    "hook": True,
    "functions": [
        "barter::engine::state::order::Orders::record_in_flight_cancel - the five C01 cells 'cancel request sent' on every pre-state kind (a sent cancel makes "
        "the order cancel-in-flight, which is what makes a repeated cancel command request nothing new)",
        "barter_execution::order::Order::<ExchangeIndex, InstrumentIndex, ActiveOrderState>::to_request_cancel",
        "barter::strategy::close_positions::build_ioc_market_order_to_close_position",
    ],
    "bounds": {
        "quick": "to_request_cancel on an arbitrary order of each active-state kind (symbolic key indices, side, price, quantity, open timestamp / filled "
                 "quantity); build_ioc_market_order_to_close_position on an arbitrary open position (2-bit quantities), symbolic exchange / instrument "
                 "index and price; unwind 10",
        "thorough": "same as quick",
    },
    "outside": ["InstrumentStates::filtered / filtered_mut (the filter predicates) and Engine::action(Command::CancelOrders | ClosePositions) over a whole "
                "engine state incl. 'repeating a cancel command requests nothing new' at engine level - engine-level harnesses (Either-typed iterator "
                "chains over maps of instrument states) did not fit: even InstrumentStates::instruments(&InstrumentFilter::None) over a literal "
                "2-instrument state gave no result in 25 min; only the per-order / per-position kernels and the cancel-request cells are claimed",
                ],
    "assumptions": [],
    "tiers": {
        "quick": {"filters": ["c19_q_", "c19_twin_", "c01_q_untracked_cancel_request", "c01_q_oif_cancel_request", "c01_q_open_cancel_request",
                              "c01_q_cifn_cancel_request", "c01_q_cifs_cancel_request"], "jobs": 11, "harness_timeout_s": 900, "total_timeout_s": 2400, "mem_gb": 8},
        "thorough": {"filters": ["c19_", "_cancel_request"], "jobs": 14, "harness_timeout_s": 3000, "total_timeout_s": 9000, "mem_gb": 8},
    },
}


# ---- MANIFEST texts -------------------------------------------------------------------------------------
LEVEL = {
 "C03": ("The single-request delivery primitive (SendRequests::send_request) under a symbolic per-exchange link fault pattern and a symbolic "
         "(possibly unknown) exchange index: Ok <=> delivered exactly once to exactly that exchange's link; gone / missing link => fatal error and no "
         "delivery; unhealthy link => recoverable error and no delivery; the real positional link table with a link-less exchange. EngineState records an "
         "in-flight open on exactly the named instrument. Engine::process: disabling trading notifies the strategy once and generates nothing; shutdown generates nothing.",
         "Kernel-level: the batch actions, risk refusal reporting and the enabled half of the trading-state gating are outside the claim (they did not fit)."),
 "C19": ("The two per-item kernels the commands are built from: Order::to_request_cancel (none iff already being cancelled; client order id always, exchange "
         "order id iff known) and build_ioc_market_order_to_close_position (opposite side, equal quantity, IOC market order, same instrument).",
         "Kernel-level only: the instrument filter and the engine action are outside the claim."),
 "C05": ("One inductive step of the real OrderBookSide::upsert (both sides) from an arbitrary valid side with a concrete level count against an association "
         "list with set/delete semantics (strict order, no duplicate, no zero amount, every price's amount), plus OrderBook::update / snapshot and the "
         "derived prices on small books.",
         "Level count concrete per harness (0..3); exact-rational Decimal model; snapshot events assumed well-formed."),
 "C09": ("One inductive step with the ghost 'greatest delivered timestamp and a value delivered with it' for balances, last traded price and top of book, "
         "from an arbitrary held state and an arbitrary message; covers every permutation with repetition of any message set.",
         "Order arm covered under C01; engine-level routing outside; L1 connector timestamp contract assumed."),
 "C04": ("Both translation directions of the real ExecutionInstrumentMap and the outbound/inbound translation of AccountEventIndexer, on a concrete "
         "two-exchange family with shared asset names, for symbolic own / foreign / out-of-range indices and own / foreign / unknown names.",
         "Needs the container hook; configuration family concrete (strings cannot be symbolic)."),
 "C15": ("The engine entry point EngineState::update_from_market (and the InstrumentState kernel) executed on a literally constructed engine state with an "
         "arbitrary open position, arbitrary held market data and an arbitrary priced event, asserting pnl_unrealised == documented estimate at the "
         "instrument's current price; plus the post-fill value through PositionManager::update_from_trade.",
         "Needs the container hook; one instrument; Decimal::from_f64 stubbed on small integers. A known finding is recorded for freshly opened positions."),
 "C01": ("One step of the real Orders state machine per (pre-state kind x input kind) cell - 60 cells - with symbolic timestamps, filled quantities and "
         "bystander payload, compared with a reference lifecycle written from the property text, plus monotone exchange timestamps, no invented data and "
         "bystander-unchanged. Induction over cells covers all interleavings, duplicates and stale reports for any number of order ids.",
         "Needs the container hook (FnvHashMap replaced by an inline association list); engine-level routing outside."),
 "C14": ("One inductive step of the four real ConnectivityStates update methods from an arbitrary invariant-satisfying state over three exchanges: exactly "
         "the addressed link changes as specified and global health equals the conjunction of all links again; induction covers event sequences of any length.",
         "Needs the container hook (IndexMap replaced by an inline association list); on_disconnect strategy invocation is outside."),
 "C02": ("One inductive step of the real PositionManager::update_from_trade from an arbitrary open position (or none) with an arbitrary fill, "
         "asserting side/size = sign/magnitude of the net quantity, closed-record iff the net quantity reaches or crosses zero, the exact "
         "cash-flow identity of realised PnL (wealth function), fee additivity and fill-id recording. Induction covers fill sequences of any "
         "length; the SAT verdict covers every value in the stated bit-widths, which sampled unit tests cannot.",
         "Exact-rational Decimal model (rounding outside the claim); quantities bounded to 2 (quick) / 3 (thorough) bits."),
 "C06": ("Bounded model checking of the real sequencer code: one step from an arbitrary sequencer state with full 64-bit symbolic update ids, "
         "plus k-step (k=4) harnesses over arbitrary message sequences, for both the spot and the USD-futures rule sets. The solver verdict "
         "covers every id value, which the quantifier over all delivery perturbations needs.",
         "Outside: the +1 overflow at u64::MAX, the tokio stream combinator that terminates the connection, serde."),
 "C16": ("Inductive invariant linking PnLReturns to ghost win/loss counts and sums through the real TearSheetGenerator::update_from_position, and the "
         "real generate() on an arbitrary invariant-satisfying state asserted against win_rate = W/(W+L), profit_factor = |SW|/|SL| with the documented "
         "None/MAX/MIN conventions and pnl = sum of realised PnL.",
         "Ratio metrics (Sharpe/Sortino/Calmar) stubbed and unclaimed; TradingSummaryGenerator maps outside; exact-rational Decimal model."),
 "C17": ("Inductive invariant (count, sum, mean, Welford M, variance, range) of the real DataSetSummary::update against ghost n, sum, sum of squares: "
         "equality with the batch formulas after any sequence, order-independence, variance >= 0, mean within range; plus a direct three-value/two-order harness.",
         "Exact-rational Decimal model; sqrt uninterpreted; values bounded to [-3,3] (quick) / [-7,7] (thorough)."),
 "C18": ("One step of the real DrawdownGenerator from an arbitrary state, k-point curves (k=4/5) against an independent quadratic peak-to-trough decomposition, "
         "and one step of the max / mean generators from arbitrary states.",
         "Exact-rational Decimal model; positive running maxima (the property's precondition); integer-millisecond mean duration asserted as implemented."),
}
