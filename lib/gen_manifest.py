#!/usr/bin/env python3
"""Regenerates /verif/MANIFEST.json from lib/props.py (checks) and lib/not_applicable.json."""
import json, os, sys
sys.path.insert(0, os.path.dirname(os.path.abspath(__file__)))
from props import PROPS, LEVEL
ROOT = os.path.dirname(os.path.dirname(os.path.abspath(__file__)))
na = json.load(open(os.path.join(ROOT, "lib", "not_applicable.json")))
hooks = json.load(open(os.path.join(ROOT, "lib", "hooks.json")))
checks = []
for pid in sorted(PROPS):
    text, note = LEVEL[pid]
    checks.append({
        "property_id": pid,
        "quick_cmd": f"./check {pid} --tier quick",
        "thorough_cmd": f"./check {pid} --tier thorough",
        "evidence_file": f"evidence/{pid}.json",
        "replay_cmd_template": f"./check {pid} --replay {{path}}",
        "engine": "kani-harnesses",
        "level_claimed": {"category": "model_checking", "text": text, "design_ref": f"DESIGN.md section 4, {pid}"},
        "level_note": "Trusted: Kani 0.68 MIR->goto translation, CBMC 6.11, cadical; environment stubs listed in the evidence file. " + note,
        "technique": "solver-based bounded model checking of the compiled Rust code (Kani 0.68 / CBMC 6.11, SAT back end) - symbolic inputs, property as assertion, counterexamples replayed natively",
    })
claimed = {c["property_id"] for c in checks}
manifest = {
    "version": 1,
    "setup_cmd": "./check --setup",
    "hooks": hooks,
    "engines": [{"name": "kani-harnesses", "path": "kani/", "serves_properties": sorted(claimed),
                 "kind_free_text": "Kani 0.68 / CBMC 6.11 (cadical) bounded model checking of the compiled barter-rs code; harness crate with path dependencies on /repo; driver ./check"}],
    "checks": checks,
    "not_applicable": [e for e in na if e["property_id"] not in claimed],
    "notes": "Exit codes of ./check: 0 held within bounds, 1 violation reproduced natively (VIOLATION line), 2 inconclusive (never a pass). See DESIGN.md.",
}
json.dump(manifest, open(os.path.join(ROOT, "MANIFEST.json"), "w"), indent=1)
print("wrote MANIFEST.json with", len(checks), "checks,", len(manifest["not_applicable"]), "not applicable")
