//! C16 — tear-sheet PnL, win rate and profit factor match the closed positions.
//!
//! Ghosts over the history of closed positions: W / L = number of returns that are not negative / negative,
//! SW / SL = their sums, P = Σ realised PnL. Invariant J: pnl_raw = P, total.count = W+L, total.sum = SW+SL,
//! losses.count = L, losses.sum = SL. (a) one arbitrary closed position preserves J through the real
//! `TearSheetGenerator::update_from_position`; (b) on an arbitrary J-state the real `generate` must return
//! pnl = P, win_rate = W/(W+L), profit_factor = |SW|/|SL| with the documented None / MAX / MIN conventions.
use crate::{gens::*, proof};
use barter::{
    engine::state::position::PositionExited,
    statistic::{
        metric::drawdown::{DrawdownGenerator, max::MaxDrawdownGenerator, mean::MeanDrawdownGenerator},
        summary::{
            dataset::{DataSetSummary, dispersion::{Dispersion, Range}},
            instrument::TearSheetGenerator,
            pnl::PnLReturns,
        },
    },
};
use barter_execution::trade::{AssetFees, TradeId};
use barter_instrument::{Side, asset::QuoteAsset, instrument::InstrumentIndex};
use chrono::TimeDelta;
use rust_decimal::Decimal;

struct Ghost {
    w: u8,
    l: u8,
    sw: Decimal,
    sl: Decimal,
    p: Decimal,
}

fn dataset(count: u8, sum: Decimal) -> DataSetSummary {
    // mean / dispersion are not part of J; they only have to be well-formed for `update` to run
    let n = Decimal::from(count);
    DataSetSummary {
        count: n,
        sum,
        mean: dec_i(2),
        dispersion: Dispersion {
            range: Range { activated: count > 0, high: Decimal::from(4), low: Decimal::from(-4) },
            recurrence_relation_m: dec_u(2),
            variance: dec_u(2),
            std_dev: dec_u(2),
        },
    }
}

fn any_state(n_max: u8, bits: u32) -> (PnLReturns, Ghost) {
    let (w, l): (u8, u8) = (any_u8_lt(n_max + 1), any_u8_lt(n_max + 1));
    let sw = if w == 0 { Decimal::ZERO } else { dec_q(bits, 2) };
    let sl = if l == 0 { Decimal::ZERO } else { -dec_q(bits, 2) };
    assume(l == 0 || sl < Decimal::ZERO);
    let p = dec_i(bits);
    let returns = PnLReturns { pnl_raw: p, total: dataset(w + l, sw + sl), losses: dataset(l, sl) };
    (returns, Ghost { w, l, sw, sl, p })
}

fn check_invariant(r: &PnLReturns, g: &Ghost) {
    assert!(deq(r.pnl_raw, g.p), "C16: raw PnL != sum of realised PnL of the closed positions");
    assert!(r.total.count == Decimal::from(g.w + g.l), "C16: total count != number of closed positions");
    assert!(deq(r.total.sum, g.sw + g.sl), "C16: total return sum");
    assert!(r.losses.count == Decimal::from(g.l), "C16: loss count != number of negative returns");
    assert!(deq(r.losses.sum, g.sl), "C16: loss sum != sum of negative returns");
}

fn closed(pnl: Decimal, price: Decimal, quantity: Decimal, t: u8) -> PositionExited<QuoteAsset, InstrumentIndex> {
    PositionExited {
        instrument: InstrumentIndex(0),
        side: if any_bool() { Side::Buy } else { Side::Sell },
        price_entry_average: price,
        quantity_abs_max: quantity,
        pnl_realised: pnl,
        fees_enter: AssetFees::quote_fees(Decimal::ZERO),
        fees_exit: AssetFees::quote_fees(Decimal::ZERO),
        time_enter: time_at(0),
        time_exit: time_at(t),
        trades: Vec::new(),
    }
}

fn generator(returns: PnLReturns) -> TearSheetGenerator {
    TearSheetGenerator {
        time_engine_start: time_at(0),
        time_engine_now: time_at(2),
        pnl_returns: returns,
        pnl_drawdown: DrawdownGenerator::default(),
        pnl_drawdown_mean: MeanDrawdownGenerator::default(),
        pnl_drawdown_max: MaxDrawdownGenerator::default(),
    }
}

fn update_step(n_max: u8, bits: u32) {
    let (returns, mut g) = any_state(n_max, bits);
    let mut tsg = generator(returns);
    // arbitrary running PnL drawdown state (the PnL curve's generators are fed by update_from_position)
    tsg.pnl_drawdown = DrawdownGenerator { peak: Some(dec_pos(bits)), drawdown_max: Decimal::ZERO, time_peak: Some(time_at(0)), time_now: time_at(1) };
    let mut reference = tsg.pnl_drawdown.clone();
    let (pnl, price, quantity) = (dec_i(bits), dec_pos(bits), dec_pos(bits));
    let position = closed(pnl, price, quantity, 3);
    tsg.update_from_position(&position);
    // the PnL drawdown generators follow the cumulative realised PnL curve at the position's exit time
    let (mut ref_max, mut ref_mean) = (MaxDrawdownGenerator::default(), MeanDrawdownGenerator::default());
    if let Some(dd) = reference.update(barter::Timed::new(g.p + pnl, time_at(3))) {
        ref_max.update(&dd);
        ref_mean.update(&dd);
    }
    assert!(tsg.pnl_drawdown == reference, "C16: the PnL drawdown generator was not fed the cumulative realised PnL at the exit time");
    assert!(tsg.pnl_drawdown_max == ref_max && tsg.pnl_drawdown_mean == ref_mean, "C16: max / mean PnL drawdown not fed the completed drawdown");
    let r = pnl / (price * quantity);
    if r < Decimal::ZERO {
        g.l += 1;
        g.sl = g.sl + r;
    } else {
        g.w += 1;
        g.sw = g.sw + r;
    }
    g.p = g.p + pnl;
    check_invariant(&tsg.pnl_returns, &g);
    assert!(tsg.time_engine_now == time_at(3));
    kani::cover!(pnl.is_zero(), "break-even position");
    kani::cover!(pnl < Decimal::ZERO && g.l > 1, "loss");
    kani::cover!(pnl > Decimal::ZERO && g.w > 1, "win");
    core::mem::forget(position);
}

proof! {
    #[kani::unwind(8)]
    fn c16_q_update_step() { update_step(2, 2) }
}
proof! {
    #[kani::unwind(8)]
    fn c16_t_update_step_wide() { update_step(4, 2) }
}

fn is_max(d: Decimal) -> bool {
    d.mantissa() == Decimal::MAX.mantissa() && d.scale() == 0
}
fn is_min(d: Decimal) -> bool {
    d.mantissa() == Decimal::MIN.mantissa() && d.scale() == 0
}

fn generate_on_state(n_max: u8, bits: u32) {
    let (returns, g) = any_state(n_max, bits);
    let mut tsg = generator(returns);
    let sheet = tsg.generate(Decimal::ZERO, TimeDelta::seconds(2));
    assert!(deq(sheet.pnl, g.p), "C16: tear-sheet PnL != sum of realised PnL");
    let total = g.w + g.l;
    match &sheet.win_rate {
        None => assert!(total == 0, "C16: win rate missing although positions were closed"),
        Some(rate) => {
            assert!(total > 0, "C16: win rate reported without any closed position");
            assert!(deq(rate.value * Decimal::from(total), Decimal::from(g.w)), "C16: win rate != fraction of non-negative returns");
        }
    }
    match &sheet.profit_factor {
        None => assert!(g.sw.is_zero() && g.sl.is_zero(), "C16: profit factor missing"),
        Some(pf) => {
            assert!(!(g.sw.is_zero() && g.sl.is_zero()), "C16: profit factor reported without wins and losses");
            if g.sl.is_zero() {
                assert!(is_max(pf.value), "C16: profit factor without losses is not the documented MAX");
            } else if g.sw.is_zero() {
                assert!(is_min(pf.value), "C16: profit factor without wins is not the documented MIN");
            } else {
                assert!(!is_max(pf.value) && !is_min(pf.value), "C16: profit factor != gross wins / gross losses");
                assert!(deq(pf.value * g.sl.abs(), g.sw.abs()), "C16: profit factor != gross wins / gross losses");
            }
        }
    }
    kani::cover!(total == 0, "no positions");
    kani::cover!(g.w > 0 && g.l > 0 && !g.sw.is_zero(), "wins and losses");
    kani::cover!(g.w > 0 && g.l == 0 && !g.sw.is_zero(), "wins only");
    kani::cover!(g.w == 0 && g.l > 0, "losses only");
    kani::cover!(g.w > 0 && g.sw.is_zero() && g.l == 0, "break-even only");
}

proof! {
    #[kani::unwind(8)]
    fn c16_q_generate() { generate_on_state(2, 2) }
}
proof! {
    #[kani::unwind(8)]
    fn c16_t_generate_wide() { generate_on_state(4, 3) }
}

// ---- trading summary: every instrument's tear sheet holds exactly that instrument's history (needs the hook) ----
#[cfg(barter_rs_barter_rs_verif)]
fn summary_generators(a: TearSheetGenerator, b: TearSheetGenerator) -> barter_integration::collection::FnvIndexMap<barter_instrument::instrument::name::InstrumentNameInternal, TearSheetGenerator> {
    use barter_integration::collection::verif::VecMap;
    VecMap { len: 2, slots: [Some((crate::world::name_internal("btc_usdt"), a)), Some((crate::world::name_internal("eth_usdt"), b)), None, None] }
}
#[cfg(not(barter_rs_barter_rs_verif))]
fn summary_generators(a: TearSheetGenerator, b: TearSheetGenerator) -> barter_integration::collection::FnvIndexMap<barter_instrument::instrument::name::InstrumentNameInternal, TearSheetGenerator> {
    [(crate::world::name_internal("btc_usdt"), a), (crate::world::name_internal("eth_usdt"), b)].into_iter().collect()
}

/// A closed position of instrument `target` (concrete per harness) with an exit time before / equal to / after the
/// summary's clock updates exactly that instrument's tear sheet.
fn summary_update(target: usize) {
    use barter::statistic::summary::TradingSummaryGenerator;
    let (ra, ga) = any_state(1, 2);
    let (rb, gb) = any_state(1, 2);
    let now = any_u8_lt(4);
    let mut summary = TradingSummaryGenerator {
        risk_free_return: Decimal::ZERO,
        time_engine_start: time_at(0),
        time_engine_now: time_at(now),
        instruments: summary_generators(generator(ra), generator(rb)),
        assets: Default::default(),
    };
    let exit = any_u8_lt(4);
    let (pnl, price, quantity) = (dec_i(2), dec_pos(2), dec_pos(2));
    let mut position = closed(pnl, price, quantity, exit);
    position.instrument = InstrumentIndex(target);
    summary.update_from_position(&position);
    let (named, other, g_named, g_other) = {
        use barter::statistic::summary::InstrumentTearSheetManager;
        let a = summary.instrument(&InstrumentIndex(0)).clone();
        let b = summary.instrument(&InstrumentIndex(1)).clone();
        if target == 0 { (a, b, ga, gb) } else { (b, a, gb, ga) }
    };
    // the other instrument's history is untouched
    check_invariant(&other.pnl_returns, &g_other);
    // the named instrument gained exactly this position
    let r = pnl / (price * quantity);
    let mut g = g_named;
    if r < Decimal::ZERO { g.l += 1; g.sl = g.sl + r; } else { g.w += 1; g.sw = g.sw + r; }
    g.p = g.p + pnl;
    check_invariant(&named.pnl_returns, &g);
    assert!(summary.time_engine_now == time_at(if exit > now { exit } else { now }), "C16: summary clock is not the latest time seen");
    kani::cover!(exit < now, "position exit older than the summary clock");
    kani::cover!(exit == now, "equal timestamps");
    core::mem::forget((summary, position, named, other));
}
proof! { #[kani::unwind(12)] fn c16_q_summary_update_first_instrument() { summary_update(0) } }
proof! { #[kani::unwind(12)] fn c16_t_summary_update_second_instrument() { summary_update(1) } }

proof! {
    #[kani::unwind(8)]
    fn c16_twin_must_fail() {
        let (returns, _g) = any_state(1, 2);
        let mut tsg = generator(returns);
        let _ = tsg.generate(Decimal::ZERO, TimeDelta::seconds(2));
        assert!(false, "twin");
    }
}
