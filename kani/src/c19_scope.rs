//! C19 — cancel-orders and close-positions commands act on exactly the filtered scope.
//!
//! Tier A (kernels): `Order::to_request_cancel` and `build_ioc_market_order_to_close_position` for arbitrary inputs.
//! Tier B (needs the container hook): the real `Engine::action(Command::CancelOrders | ClosePositions)` on a literally
//! constructed engine state.
use crate::{c02_position::any_position, gens::*, proof};
use barter::strategy::close_positions::build_ioc_market_order_to_close_position;
use barter_execution::order::{
    Order, OrderKey, OrderKind, TimeInForce,
    id::{ClientOrderId, OrderId, StrategyId},
    state::{ActiveOrderState, CancelInFlight, Open, OpenInFlight},
};
use barter_instrument::{Side, exchange::ExchangeIndex, instrument::InstrumentIndex};
use rust_decimal::Decimal;
use smol_str::SmolStr;

fn open_meta(tag: u8) -> Open {
    Open { id: OrderId(SmolStr::new_inline(if tag == 0 { "x0" } else { "x1" })), time_exchange: time(4), filled_quantity: dec_u(2) }
}

/// kind: 0 OpenInFlight, 1 Open, 2 CancelInFlight(None), 3 CancelInFlight(Some)
fn order_of_kind(kind: u8) -> Order<ExchangeIndex, InstrumentIndex, ActiveOrderState> {
    let state = match kind {
        0 => ActiveOrderState::OpenInFlight(OpenInFlight),
        1 => ActiveOrderState::Open(open_meta(0)),
        2 => ActiveOrderState::CancelInFlight(CancelInFlight { order: None }),
        _ => ActiveOrderState::CancelInFlight(CancelInFlight { order: Some(open_meta(1)) }),
    };
    Order {
        key: OrderKey { exchange: ExchangeIndex(any_usize_lt(3)), instrument: InstrumentIndex(any_usize_lt(3)), strategy: StrategyId(SmolStr::new_inline("s")), cid: ClientOrderId(SmolStr::new_inline("c7")) },
        side: if any_bool() { Side::Buy } else { Side::Sell },
        price: dec_pos(2),
        quantity: dec_pos(2),
        kind: OrderKind::Limit,
        time_in_force: TimeInForce::GoodUntilCancelled { post_only: false },
        state,
    }
}

fn cancel_request_of(kind: u8) {
    let order = order_of_kind(kind);
    let request = order.to_request_cancel();
    match kind {
        // not already being cancelled: addressed by client order id and, when known, exchange order id
        0 => {
            let r = request.as_ref().expect("C19: no cancel request for an in-flight order");
            assert!(r.key == order.key && r.state.id.is_none(), "C19: cancel request of an in-flight order");
        }
        1 => {
            let r = request.as_ref().expect("C19: no cancel request for an open order");
            assert!(r.key == order.key, "C19: cancel request addressed to another order");
            assert!(r.state.id == Some(OrderId(SmolStr::new_inline("x0"))), "C19: cancel request does not carry the known exchange order id");
        }
        // already being cancelled: nothing new is requested
        _ => assert!(request.is_none(), "C19: an order already being cancelled was cancelled again"),
    }
    kani::cover!(true, "reached");
    core::mem::forget((order, request));
}
proof! { #[kani::unwind(10)] fn c19_q_cancel_request_open_in_flight() { cancel_request_of(0) } }
proof! { #[kani::unwind(10)] fn c19_q_cancel_request_open() { cancel_request_of(1) } }
proof! { #[kani::unwind(10)] fn c19_q_cancel_request_cancel_in_flight_none() { cancel_request_of(2) } }
proof! { #[kani::unwind(10)] fn c19_q_cancel_request_cancel_in_flight_some() { cancel_request_of(3) } }

proof! {
    #[kani::unwind(10)]
    fn c19_q_close_order_of_position() {
        let side = if any_bool() { Side::Buy } else { Side::Sell };
        let mut position = any_position(side, 2, 1);
        position.instrument = InstrumentIndex(any_usize_lt(3));
        let exchange = ExchangeIndex(any_usize_lt(3));
        let price = dec_pos(3);
        let request = build_ioc_market_order_to_close_position(exchange, &position, StrategyId(SmolStr::new_inline("s")), price, || ClientOrderId(SmolStr::new_inline("close")));
        assert!(request.key.exchange == exchange && request.key.instrument == position.instrument, "C19: close order addressed to another instrument / exchange");
        assert!(request.key.cid == ClientOrderId(SmolStr::new_inline("close")));
        assert!(request.state.side != position.side, "C19: close order is not of the opposite side");
        assert!(request.state.quantity == position.quantity_abs, "C19: close order quantity != position quantity");
        assert!(request.state.kind == OrderKind::Market && request.state.time_in_force == TimeInForce::ImmediateOrCancel, "C19: close order is not an IOC market order");
        assert!(request.state.price == price);
        kani::cover!(position.side == Side::Sell, "short position");
        core::mem::forget((position, request));
    }
}

proof! {
    #[kani::unwind(10)]
    fn c19_twin_must_fail() {
        cancel_request_of(1);
        assert!(false, "twin");
    }
}
