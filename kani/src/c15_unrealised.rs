//! C15 — unrealised PnL of an open position tracks the instrument's latest price.
//!
//! Tier A: the kernel `InstrumentState::update_from_market`. Tier B: the engine entry point
//! `EngineState::update_from_market` on a literally constructed engine state (one or two instruments) with an
//! arbitrary open position, arbitrary held market data and an arbitrary priced market event.
use crate::{c02_position::{any_position, estimate, fill}, gens::*, proof, world::*};
use barter::{
    Timed,
    engine::state::{
        instrument::data::{DefaultInstrumentMarketData, InstrumentDataState},
        order::Orders,
        position::PositionManager,
        trading::TradingState,
    },
};
use barter_data::{
    books::Level,
    event::{DataKind, MarketEvent},
    subscription::{book::OrderBookL1, trade::PublicTrade},
};
use barter_instrument::{Side, exchange::ExchangeId, instrument::InstrumentIndex};
use rust_decimal::Decimal;

fn any_level(bits: u32) -> Option<Level> {
    if any_bool() { Some(Level { price: dec_pos(bits), amount: dec_pos(bits) }) } else { None }
}

/// Arbitrary held market data: top of book (either side possibly missing) and last traded price, with timestamps.
fn any_data(bits: u32) -> DefaultInstrumentMarketData {
    DefaultInstrumentMarketData {
        l1: OrderBookL1 { last_update_time: time(4), best_bid: any_level(bits), best_ask: any_level(bits) },
        last_traded_price: if any_bool() { Some(Timed::new(dec_pos(bits), time(4))) } else { None },
    }
}

/// kind 0: public trade at an integer price; kind 1: top-of-book update (connector contract: the L1's own
/// last_update_time equals the event's exchange time).
fn any_event(kind: u8, instrument: usize, bits: u32) -> MarketEvent<InstrumentIndex, DataKind> {
    let t = time(4);
    let kind = if kind == 0 {
        let p = any_u8_in(1, (1u8 << bits) - 1);
        DataKind::Trade(PublicTrade { id: String::new(), price: p as f64, amount: 1.0, side: Side::Buy })
    } else {
        DataKind::OrderBookL1(OrderBookL1 { last_update_time: t, best_bid: any_level(bits), best_ask: any_level(bits) })
    };
    MarketEvent { time_exchange: t, time_received: time_at(0), exchange: ExchangeId::BinanceSpot, instrument: InstrumentIndex(instrument), kind }
}

fn check_tracks(position: &PositionManager, data: &DefaultInstrumentMarketData) -> bool {
    match (&position.current, data.price()) {
        (Some(p), Some(price)) => {
            assert!(deq(p.pnl_unrealised, estimate(p, price)), "C15: unrealised PnL is not the documented estimate at the instrument's current price");
            true
        }
        _ => false,
    }
}

fn kernel(side: Side, event_kind: u8, bits: u32) {
    let position = PositionManager { current: Some(any_position(side, bits, 1)) };
    let mut state = instrument_state(0, instrument(0, "btc_usdt", 0, 1), position, Orders::default(), any_data(bits));
    let event = any_event(event_kind, 0, bits);
    state.update_from_market(&event);
    let priced = check_tracks(&state.position, &state.data);
    kani::cover!(priced, "priced event with an open position");
    core::mem::forget((state, event));
}

fn engine(side: Side, event_kind: u8, bits: u32) {
    let position = PositionManager { current: Some(any_position(side, bits, 1)) };
    let istate = instrument_state(0, instrument(0, "btc_usdt", 0, 1), position, Orders::default(), any_data(bits));
    let mut state = engine_state(TradingState::Disabled, instrument_states_1(("btc_usdt", istate)));
    let event = any_event(event_kind, 0, bits);
    state.update_from_market(&event);
    let after = state.instruments.instrument_index(&InstrumentIndex(0));
    let priced = check_tracks(&after.position, &after.data);
    kani::cover!(priced, "priced event with an open position");
    core::mem::forget((state, event));
}

proof! { #[kani::unwind(26)] fn c15_q_kernel_long_trade() { kernel(Side::Buy, 0, 2) } }
proof! { #[kani::unwind(26)] fn c15_q_kernel_short_l1() { kernel(Side::Sell, 1, 2) } }
proof! { #[kani::unwind(26)] fn c15_q_engine_long_trade() { engine(Side::Buy, 0, 2) } }
proof! { #[kani::unwind(26)] fn c15_q_engine_short_trade() { engine(Side::Sell, 0, 2) } }
proof! { #[kani::unwind(26)] fn c15_q_engine_long_l1() { engine(Side::Buy, 1, 2) } }
proof! { #[kani::unwind(26)] fn c15_q_engine_short_l1() { engine(Side::Sell, 1, 2) } }
proof! { #[kani::unwind(26)] fn c15_t_kernel_short_trade() { kernel(Side::Sell, 0, 3) } }
proof! { #[kani::unwind(26)] fn c15_t_kernel_long_l1() { kernel(Side::Buy, 1, 3) } }
proof! { #[kani::unwind(26)] fn c15_t_engine_long_trade() { engine(Side::Buy, 0, 3) } }
proof! { #[kani::unwind(26)] fn c15_t_engine_short_l1() { engine(Side::Sell, 1, 3) } }

// two instruments: the event's instrument is re-valued, the other instrument's position and market data are untouched
fn engine_two(target: usize, event_kind: u8, bits: u32) {
    let (pa, pb) = (any_position(Side::Buy, bits, 1), any_position(Side::Sell, bits, 1));
    let (da, db) = (any_data(bits), any_data(bits));
    let mut pb = pb;
    pb.instrument = InstrumentIndex(1);
    let a = instrument_state(0, instrument(0, "btc_usdt", 0, 1), PositionManager { current: Some(pa) }, Orders::default(), da);
    let b = instrument_state(1, instrument(1, "eth_usdt", 2, 3), PositionManager { current: Some(pb) }, Orders::default(), db);
    let mut state = engine_state(TradingState::Disabled, instrument_states_2(("btc_usdt", a), ("eth_usdt", b)));
    let other_before = state.instruments.instrument_index(&InstrumentIndex(1 - target)).clone();
    let event = any_event(event_kind, target, bits);
    state.update_from_market(&event);
    let after = state.instruments.instrument_index(&InstrumentIndex(target));
    let priced = check_tracks(&after.position, &after.data);
    let other_after = state.instruments.instrument_index(&InstrumentIndex(1 - target));
    assert!(other_after.position == other_before.position && other_after.data == other_before.data, "C15: a market event changed another instrument");
    kani::cover!(priced, "priced event with an open position");
    core::mem::forget((state, event, other_before));
}
proof! { #[kani::unwind(26)] fn c15_q_engine_two_instruments_second() { engine_two(1, 0, 2) } }
proof! { #[kani::unwind(26)] fn c15_t_engine_two_instruments_first_l1() { engine_two(0, 1, 2) } }

// after a fill the value equals the estimate at the fill price (until newer market data arrives).
// arm: 0 = any, 1 = fill smaller than the position, 2 = equal, 3 = larger (flip)
fn after_fill(pre_side: Option<Side>, fill_side: Side, arm: u8, bits: u32) {
    let pre = pre_side.map(|s| any_position(s, bits, 1));
    let trade = fill(fill_side, dec_pos(bits), dec_pos(bits), dec_u(bits), time_at(3), 0);
    if let Some(p) = &pre {
        match arm {
            1 => assume(trade.quantity < p.quantity_abs),
            2 => assume(trade.quantity == p.quantity_abs),
            3 => assume(trade.quantity > p.quantity_abs),
            _ => {}
        }
    }
    let had_position = pre.is_some();
    let mut position = PositionManager { current: pre };
    let closed = position.update_from_trade(&trade);
    if let Some(p) = &position.current {
        if !had_position || closed.is_some() {
            // position freshly opened by this fill (first fill, or remainder of a flip)
            assert!(deq(p.pnl_unrealised, estimate(p, trade.price)), "C15: a freshly opened position's unrealised PnL is not the estimate at the fill price");
        } else {
            assert!(deq(p.pnl_unrealised, estimate(p, trade.price)), "C15: after a fill the unrealised PnL is not the estimate at the fill price");
        }
    }
    kani::cover!(position.current.is_some(), "position open after the fill");
    core::mem::forget((position, trade, closed));
}
proof! { #[kani::unwind(26)] fn c15_q_fill_long_buy() { after_fill(Some(Side::Buy), Side::Buy, 0, 2) } }
proof! { #[kani::unwind(26)] fn c15_q_fill_short_sell() { after_fill(Some(Side::Sell), Side::Sell, 0, 2) } }
proof! { #[kani::unwind(26)] fn c15_q_fill_long_sell_reduce() { after_fill(Some(Side::Buy), Side::Sell, 1, 2) } }
proof! { #[kani::unwind(26)] fn c15_q_fill_short_buy_reduce() { after_fill(Some(Side::Sell), Side::Buy, 1, 2) } }
// freshly opened positions (see known_findings.json: the code reports 0 instead of the estimate = -entry fee)
proof! { #[kani::unwind(26)] fn c15_q_fill_open_buy() { after_fill(None, Side::Buy, 0, 2) } }
proof! { #[kani::unwind(26)] fn c15_q_fill_open_sell() { after_fill(None, Side::Sell, 0, 2) } }
proof! { #[kani::unwind(26)] fn c15_q_fill_long_sell_flip() { after_fill(Some(Side::Buy), Side::Sell, 3, 2) } }
proof! { #[kani::unwind(26)] fn c15_q_fill_short_buy_flip() { after_fill(Some(Side::Sell), Side::Buy, 3, 2) } }

proof! {
    #[kani::unwind(26)]
    fn c15_twin_must_fail() {
        kernel(Side::Buy, 0, 2);
        assert!(false, "twin");
    }
}
