//! C14 — global connectivity is healthy exactly when every exchange link is (needs the container hook).
//!
//! One inductive step of the four real `ConnectivityStates::update_from_*` methods from an ARBITRARY state
//! over three exchanges (6 symbolic health flags) satisfying the invariant
//! `global == Healthy  <=>  every market-data and account link is Healthy`.
use crate::{gens::*, proof};
use barter::engine::state::connectivity::{ConnectivityState, ConnectivityStates, Health};
use barter_instrument::exchange::{ExchangeId, ExchangeIndex};

const EXCHANGES: [ExchangeId; 3] = [ExchangeId::BinanceSpot, ExchangeId::Kraken, ExchangeId::Okx];

fn any_health() -> Health {
    if any_bool() { Health::Healthy } else { Health::Reconnecting }
}

fn all_healthy(flags: &[(Health, Health); 3]) -> bool {
    let mut i = 0;
    while i < 3 {
        if flags[i].0 != Health::Healthy || flags[i].1 != Health::Healthy {
            return false;
        }
        i += 1;
    }
    true
}

fn state_from(flags: &[(Health, Health); 3], global: Health) -> ConnectivityStates {
    ConnectivityStates {
        global,
        exchanges: [
            (EXCHANGES[0], ConnectivityState { market_data: flags[0].0, account: flags[0].1 }),
            (EXCHANGES[1], ConnectivityState { market_data: flags[1].0, account: flags[1].1 }),
            (EXCHANGES[2], ConnectivityState { market_data: flags[2].0, account: flags[2].1 }),
        ]
        .into_iter()
        .collect(),
    }
}

fn read_flags(state: &ConnectivityStates) -> [(Health, Health); 3] {
    let mut out = [(Health::Healthy, Health::Healthy); 3];
    let mut i = 0;
    while i < 3 {
        let s = state.connectivity_index(&ExchangeIndex(i));
        out[i] = (s.market_data, s.account);
        // lookup by id and by index agree
        let by_id = state.connectivity(&EXCHANGES[i]);
        assert!(by_id.market_data == s.market_data && by_id.account == s.account, "C14: lookup by id and by index disagree");
        i += 1;
    }
    out
}

proof! {
    #[kani::unwind(6)]
    fn c14_q_market_item() {
        let flags: [(Health, Health); 3] = [(any_health(), any_health()), (any_health(), any_health()), (any_health(), any_health())];
        let global = if all_healthy(&flags) { Health::Healthy } else { Health::Reconnecting };
        let mut state = state_from(&flags, global);
        let x = any_usize_lt(3);
        state.update_from_market_event(&EXCHANGES[x]);
        let after = read_flags(&state);
        let mut expected = flags;
        expected[x].0 = Health::Healthy;
        let mut i = 0;
        while i < 3 {
            assert!(after[i] == expected[i], "C14: link health wrong after a market item");
            i += 1;
        }
        assert!((state.global == Health::Healthy) == all_healthy(&after), "C14: global health != (every link healthy)");
        kani::cover!(global == Health::Reconnecting && state.global == Health::Healthy, "became globally healthy");
        kani::cover!(global == Health::Reconnecting && state.global == Health::Reconnecting, "stayed unhealthy");
        kani::cover!(global == Health::Healthy, "already healthy");
        core::mem::forget(state);
    }
}
proof! {
    #[kani::unwind(6)]
    fn c14_q_account_item() {
        let flags: [(Health, Health); 3] = [(any_health(), any_health()), (any_health(), any_health()), (any_health(), any_health())];
        let global = if all_healthy(&flags) { Health::Healthy } else { Health::Reconnecting };
        let mut state = state_from(&flags, global);
        let x = any_usize_lt(3);
        state.update_from_account_event(&ExchangeIndex(x));
        let after = read_flags(&state);
        let mut expected = flags;
        expected[x].1 = Health::Healthy;
        let mut i = 0;
        while i < 3 {
            assert!(after[i] == expected[i], "C14: link health wrong after an account item");
            i += 1;
        }
        assert!((state.global == Health::Healthy) == all_healthy(&after), "C14: global health != (every link healthy)");
        kani::cover!(global == Health::Reconnecting && state.global == Health::Healthy, "became globally healthy");
        kani::cover!(global == Health::Reconnecting && state.global == Health::Reconnecting, "stayed unhealthy");
        kani::cover!(global == Health::Healthy, "already healthy");
        core::mem::forget(state);
    }
}
proof! {
    #[kani::unwind(6)]
    fn c14_q_reconnecting_notice() {
        let flags: [(Health, Health); 3] = [(any_health(), any_health()), (any_health(), any_health()), (any_health(), any_health())];
        let global = if all_healthy(&flags) { Health::Healthy } else { Health::Reconnecting };
        let mut state = state_from(&flags, global);
        let x = any_usize_lt(3);
        let market = any_bool();
        let mut expected = flags;
        if market {
            state.update_from_market_reconnecting(&EXCHANGES[x]);
            expected[x].0 = Health::Reconnecting;
        } else {
            state.update_from_account_reconnecting(&EXCHANGES[x]);
            expected[x].1 = Health::Reconnecting;
        }
        let after = read_flags(&state);
        let mut i = 0;
        while i < 3 {
            assert!(after[i] == expected[i], "C14: a disconnect notice must mark exactly that exchange's link as reconnecting");
            i += 1;
        }
        assert!(state.global == Health::Reconnecting, "C14: global health still healthy after a disconnect notice");
        kani::cover!(global == Health::Healthy && market, "healthy -> market link dropped");
        kani::cover!(global == Health::Healthy && !market, "healthy -> account link dropped");
        core::mem::forget(state);
    }
}

// two steps: a disconnect notice followed by the next event from that link restores the previous state
proof! {
    #[kani::unwind(6)]
    fn c14_q_drop_then_recover() {
        let flags: [(Health, Health); 3] = [(any_health(), any_health()), (any_health(), any_health()), (any_health(), any_health())];
        let global = if all_healthy(&flags) { Health::Healthy } else { Health::Reconnecting };
        let mut state = state_from(&flags, global);
        let x = any_usize_lt(3);
        let market = any_bool();
        if market {
            state.update_from_market_reconnecting(&EXCHANGES[x]);
            state.update_from_market_event(&EXCHANGES[x]);
        } else {
            state.update_from_account_reconnecting(&EXCHANGES[x]);
            state.update_from_account_event(&ExchangeIndex(x));
        }
        let after = read_flags(&state);
        let mut expected = flags;
        if market { expected[x].0 = Health::Healthy } else { expected[x].1 = Health::Healthy }
        let mut i = 0;
        while i < 3 {
            assert!(after[i] == expected[i], "C14: link not healthy again after the next event from it");
            i += 1;
        }
        assert!((state.global == Health::Healthy) == all_healthy(&after), "C14: global health != (every link healthy)");
        kani::cover!(global == Health::Healthy && state.global == Health::Healthy, "healthy -> dropped -> healthy");
        core::mem::forget(state);
    }
}

// engine level: a disconnect notice processed by the Engine marks exactly that exchange's link and invokes the
// on-disconnect strategy exactly once, for the right exchange
static mut DISCONNECTS: [u8; 2] = [0; 2];
struct Counting;
impl<Clock, State, Txs, Risk> barter::strategy::on_disconnect::OnDisconnectStrategy<Clock, State, Txs, Risk> for Counting {
    type OnDisconnect = ();
    fn on_disconnect(_: &mut barter::engine::Engine<Clock, State, Txs, Self, Risk>, exchange: ExchangeId) {
        unsafe {
            if exchange == ExchangeId::BinanceSpot { DISCONNECTS[0] += 1 } else if exchange == ExchangeId::Kraken { DISCONNECTS[1] += 1 } else { panic!("C14: on_disconnect for an unknown exchange") }
        }
    }
}
proof! {
    #[kani::unwind(12)]
    fn c14_t_engine_disconnect_notice() {
        use crate::world::*;
        use barter::{Sequence, engine::{Engine, EngineMeta, state::{instrument::data::DefaultInstrumentMarketData, order::Orders, position::PositionManager, trading::TradingState}}};
        use barter::execution::AccountStreamEvent;
        use barter_data::{event::DataKind, streams::consumer::MarketStreamEvent};
        use barter_instrument::instrument::InstrumentIndex;
        unsafe { DISCONNECTS = [0; 2]; }
        let istate = instrument_state(0, instrument(0, "btc_usdt", 0, 1), PositionManager::default(), Orders::default(), DefaultInstrumentMarketData::default());
        let mut state = engine_state(TradingState::Disabled, instrument_states_1(("btc_usdt", istate)));
        // arbitrary link health satisfying the invariant
        let flags = [(any_health(), any_health()), (any_health(), any_health())];
        let all = flags[0].0 == Health::Healthy && flags[0].1 == Health::Healthy && flags[1].0 == Health::Healthy && flags[1].1 == Health::Healthy;
        state.connectivity = connectivity_2(if all { Health::Healthy } else { Health::Reconnecting },
            (ExchangeId::BinanceSpot, ConnectivityState { market_data: flags[0].0, account: flags[0].1 }),
            (ExchangeId::Kraken, ConnectivityState { market_data: flags[1].0, account: flags[1].1 }));
        let mut engine = Engine { clock: (), meta: EngineMeta { time_start: crate::gens::time_at(0), sequence: Sequence(0) }, state, execution_txs: (), strategy: Counting, risk: () };
        let x = any_usize_lt(2);
        let exchange = if x == 0 { ExchangeId::BinanceSpot } else { ExchangeId::Kraken };
        let market = any_bool();
        if market {
            let event: MarketStreamEvent<InstrumentIndex, DataKind> = MarketStreamEvent::Reconnecting(exchange);
            let _ = engine.update_from_market_stream(&event);
        } else {
            let event: AccountStreamEvent = AccountStreamEvent::Reconnecting(exchange);
            let _ = engine.update_from_account_stream(&event);
        }
        unsafe {
            assert!(DISCONNECTS[x] == 1 && DISCONNECTS[1 - x] == 0, "C14: on-disconnect strategy not invoked exactly once for the right exchange");
        }
        let mut i = 0;
        while i < 2 {
            let s = engine.state.connectivity.connectivity_index(&ExchangeIndex(i));
            let mut want = flags[i];
            if i == x { if market { want.0 = Health::Reconnecting } else { want.1 = Health::Reconnecting } }
            assert!(s.market_data == want.0 && s.account == want.1, "C14: a disconnect notice must mark exactly that exchange's link as reconnecting");
            i += 1;
        }
        assert!(engine.state.connectivity.global == Health::Reconnecting, "C14: global health still healthy after a disconnect notice");
        kani::cover!(all && market && x == 1, "healthy system, market link of the second exchange drops");
        core::mem::forget(engine);
    }
}

proof! {
    #[kani::unwind(6)]
    fn c14_twin_must_fail() {
        let flags: [(Health, Health); 3] = [(any_health(), any_health()), (any_health(), any_health()), (any_health(), any_health())];
        let mut state = state_from(&flags, Health::Reconnecting);
        state.update_from_market_event(&EXCHANGES[1]);
        core::mem::forget(state);
        assert!(false, "twin");
    }
}
