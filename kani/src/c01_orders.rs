//! C01 — active-order tracking follows the documented order lifecycle (needs the container hook).
//!
//! One harness per cell (pre-state kind of the subject order) x (input kind), so map shape and control flow
//! are concrete and the solver quantifies over every payload: both exchange timestamps, both filled
//! quantities (0..=2 against quantity 2, so "nothing left to fill" is reachable) and the bystander order's
//! whole state. Oracle: the `expected()` reference lifecycle written from the property text.
//! Induction over cells covers all interleavings, duplicates and stale reports for any number of order ids.
use crate::{gens::*, proof};
use barter::engine::state::order::{Orders, in_flight_recorder::InFlightRequestRecorder, manager::OrderManager};
use barter_execution::{
    error::{ConnectivityError, OrderError},
    order::{
        Order, OrderKey, OrderKind, TimeInForce,
        id::{ClientOrderId, OrderId, StrategyId},
        request::{OrderRequestCancel, OrderRequestOpen, OrderResponseCancel, RequestCancel, RequestOpen},
        state::{ActiveOrderState, CancelInFlight, Cancelled, InactiveOrderState, Open, OpenInFlight, OrderState},
    },
};
use barter_instrument::{Side, asset::AssetIndex, exchange::ExchangeIndex, instrument::InstrumentIndex};
use barter_integration::snapshot::Snapshot;
use rust_decimal::Decimal;
use smol_str::SmolStr;

/// Abstract state of one client order id. `Open`/`Cif(Some)` carry (exchange time in s, filled quantity, report tag),
/// tag 0 = the report held before the step ("x0"), 1 = the report delivered in this step ("x1"), 2 = bystander's.
#[derive(Clone, Copy, PartialEq, Eq, Debug)]
pub(crate) enum St {
    Untracked,
    Oif,
    Open(u8, u8, u8),
    Cif(Option<(u8, u8, u8)>),
}

const QUANTITY: u8 = 2;

// ids are built with `SmolStr::new_inline` (element-wise copy): `SmolStr::new` copies with memcpy, which CBMC's
// constant propagation does not see through
pub(crate) fn cid(name: &str) -> ClientOrderId {
    ClientOrderId(SmolStr::new_inline(name))
}
fn key(name: &str) -> OrderKey {
    OrderKey { exchange: ExchangeIndex(0), instrument: InstrumentIndex(0), strategy: StrategyId(SmolStr::new_inline("s")), cid: cid(name) }
}
fn oid(tag: u8) -> OrderId {
    match tag {
        0 => OrderId(SmolStr::new_inline("x0")),
        1 => OrderId(SmolStr::new_inline("x1")),
        _ => OrderId(SmolStr::new_inline("x2")),
    }
}
fn open(t: u8, f: u8, tag: u8) -> Open {
    Open { id: oid(tag), time_exchange: time_at(t), filled_quantity: Decimal::from(f) }
}
fn active(st: St) -> Option<ActiveOrderState> {
    match st {
        St::Untracked => None,
        St::Oif => Some(ActiveOrderState::OpenInFlight(OpenInFlight)),
        St::Open(t, f, g) => Some(ActiveOrderState::Open(open(t, f, g))),
        St::Cif(o) => Some(ActiveOrderState::CancelInFlight(CancelInFlight { order: o.map(|(t, f, g)| open(t, f, g)) })),
    }
}
fn order<S>(name: &str, state: S) -> Order<ExchangeIndex, InstrumentIndex, S> {
    Order {
        key: key(name),
        side: Side::Buy,
        price: Decimal::from(3),
        quantity: Decimal::from(QUANTITY),
        kind: OrderKind::Limit,
        time_in_force: TimeInForce::GoodUntilCancelled { post_only: false },
        state,
    }
}
fn abstract_order(o: &Order<ExchangeIndex, InstrumentIndex, ActiveOrderState>, name: &str) -> St {
    assert!(o.key.cid == cid(name), "C01: order stored under a foreign client order id");
    let tag = |id: &OrderId| if *id == oid(0) { 0 } else if *id == oid(1) { 1 } else { 2 };
    let secs = |open: &Open| {
        let mut k = 0u8;
        while k < 4 && open.time_exchange != time_at(k) {
            k += 1;
        }
        assert!(k < 4, "C01: exchange timestamp outside the generated range");
        k
    };
    let filled = |open: &Open| if open.filled_quantity == Decimal::from(0) { 0 } else if open.filled_quantity == Decimal::from(1) { 1 } else { 2 };
    match &o.state {
        ActiveOrderState::OpenInFlight(_) => St::Oif,
        ActiveOrderState::Open(op) => St::Open(secs(op), filled(op), tag(&op.id)),
        ActiveOrderState::CancelInFlight(c) => St::Cif(c.order.as_ref().map(|op| (secs(op), filled(op), tag(&op.id)))),
    }
}

/// Observation of one client order id in the map. Under the hook the slots are scanned at CONSTANT indices and the
/// abstract state is merged as a value: a reference returned by `get()` into a map whose shape depends on the solver
/// is a symbolic pointer, and every field read through it costs a multiplexer over all slots (4 M variables vs 50 k).
#[cfg(barter_rs_barter_rs_verif)]
pub(crate) fn observe(orders: &Orders, name: &str) -> St {
    use barter_integration::collection::verif::CAP;
    let mut st = St::Untracked;
    let mut hits = 0;
    let mut i = 0;
    while i < CAP {
        if i < orders.0.len {
            if let Some((k, v)) = &orders.0.slots[i] {
                if *k == cid(name) {
                    st = abstract_order(v, name);
                    hits += 1;
                }
            }
        }
        i += 1;
    }
    assert!(hits <= 1, "C01: client order id tracked twice");
    assert!(orders.0.get(&cid(name)).is_some() == (hits == 1), "C01: map lookup disagrees with its contents");
    st
}
#[cfg(not(barter_rs_barter_rs_verif))]
pub(crate) fn observe(orders: &Orders, name: &str) -> St {
    match orders.0.get(&cid(name)) {
        Some(o) => abstract_order(o, name),
        None => St::Untracked,
    }
}

fn any_tf(tag: u8) -> (u8, u8, u8) {
    let t = any_u8_lt(4);
    let f = any_u8_lt(QUANTITY + 1);
    (t, f, tag)
}
/// pre kinds: 0 untracked, 1 OpenInFlight, 2 Open, 3 CancelInFlight(None), 4 CancelInFlight(Some)
pub(crate) fn any_pre(kind: u8, tag: u8) -> St {
    match kind {
        0 => St::Untracked,
        1 => St::Oif,
        2 => { let (t, f, g) = any_tf(tag); assume(f < QUANTITY); St::Open(t, f, g) }
        3 => St::Cif(None),
        _ => { let (t, f, g) = any_tf(tag); assume(f < QUANTITY); St::Cif(Some((t, f, g))) }
    }
}
/// The bystander's KIND is concrete per harness (a symbolic enum variant inside the map defeats CBMC's constant
/// propagation: 47 s -> out of memory); its payload is symbolic.
pub(crate) fn any_bystander(k: u8) -> St {
    match k {
        1 => St::Oif,
        2 => { let (t, f, g) = any_tf(2); St::Open(t, f, g) }
        3 => St::Cif(None),
        _ => { let (t, f, g) = any_tf(2); St::Cif(Some((t, f, g))) }
    }
}

/// Map shape (which ids are present, how many) is concrete per cell; only payloads are symbolic.
/// Under the hook the association list is written out literally (inline storage, concrete length).
#[cfg(barter_rs_barter_rs_verif)]
pub(crate) fn orders_from(a: St, b: St, b_first: bool) -> Orders {
    use barter_integration::collection::verif::VecMap;
    let b_entry = Some((cid("b"), order("b", active(b).expect("bystander is always tracked"))));
    match active(a) {
        Some(state) => {
            let a_entry = Some((cid("a"), order("a", state)));
            if b_first {
                Orders(VecMap { len: 2, slots: [b_entry, a_entry, None, None] })
            } else {
                Orders(VecMap { len: 2, slots: [a_entry, b_entry, None, None] })
            }
        }
        None => Orders(VecMap { len: 1, slots: [b_entry, None, None, None] }),
    }
}
#[cfg(not(barter_rs_barter_rs_verif))]
pub(crate) fn orders_from(a: St, b: St, b_first: bool) -> Orders {
    let mut orders = Orders::default();
    if b_first {
        orders.0.insert(cid("b"), order("b", active(b).expect("bystander is always tracked")));
    }
    if let Some(state) = active(a) {
        orders.0.insert(cid("a"), order("a", state));
    }
    if !b_first {
        orders.0.insert(cid("b"), order("b", active(b).expect("bystander is always tracked")));
    }
    orders
}

#[derive(Clone, Copy, PartialEq, Eq)]
pub(crate) enum Input {
    OpenRequest,
    CancelRequest,
    SnapInFlight,
    SnapOpen(u8, u8),
    SnapCif(Option<(u8, u8)>),
    SnapCancelled(u8),
    SnapFullyFilled,
    SnapFailed,
    SnapExpired,
    CancelOk(u8),
    CancelErr,
}

/// input kinds: 0 open request, 1 cancel request, 2..=9 snapshots (in-flight, open, cancel-in-flight(None),
/// cancel-in-flight(Some), cancelled, fully filled, failed, expired), 10 cancel ok, 11 cancel err
pub(crate) fn any_input(kind: u8) -> Input {
    let (t, f, _) = any_tf(1);
    match kind {
        0 => Input::OpenRequest,
        1 => Input::CancelRequest,
        2 => Input::SnapInFlight,
        3 => Input::SnapOpen(t, f),
        4 => Input::SnapCif(None),
        5 => Input::SnapCif(Some((t, f))),
        6 => Input::SnapCancelled(t),
        7 => Input::SnapFullyFilled,
        8 => Input::SnapFailed,
        9 => Input::SnapExpired,
        10 => Input::CancelOk(t),
        _ => Input::CancelErr,
    }
}

pub(crate) fn apply(orders: &mut Orders, input: Input) {
    let snap = |orders: &mut Orders, state: OrderState<AssetIndex, InstrumentIndex>| {
        let o = order("a", state);
        orders.update_from_order_snapshot(Snapshot(&o));
        core::mem::forget(o);
    };
    match input {
        Input::OpenRequest => {
            let request = OrderRequestOpen {
                key: key("a"),
                state: RequestOpen { side: Side::Buy, price: Decimal::from(3), quantity: Decimal::from(QUANTITY), kind: OrderKind::Limit,
                    time_in_force: TimeInForce::GoodUntilCancelled { post_only: false } },
            };
            orders.record_in_flight_open(&request);
            core::mem::forget(request);
        }
        Input::CancelRequest => {
            let request = OrderRequestCancel { key: key("a"), state: RequestCancel { id: None } };
            orders.record_in_flight_cancel(&request);
            core::mem::forget(request);
        }
        Input::SnapInFlight => snap(orders, OrderState::active(OpenInFlight)),
        Input::SnapOpen(t, f) => snap(orders, OrderState::active(open(t, f, 1))),
        Input::SnapCif(o) => snap(orders, OrderState::active(CancelInFlight { order: o.map(|(t, f)| open(t, f, 1)) })),
        Input::SnapCancelled(t) => {
            // concrete literal first, then write the symbolic leaf in place (keeps the rest of the struct constant for CBMC)
            let mut o: Order<ExchangeIndex, InstrumentIndex, OrderState<AssetIndex, InstrumentIndex>> =
                order("a", OrderState::inactive(Cancelled { id: oid(1), time_exchange: time_at(0) }));
            if let OrderState::Inactive(InactiveOrderState::Cancelled(c)) = &mut o.state {
                c.time_exchange = time_at(t);
            }
            orders.update_from_order_snapshot(Snapshot(&o));
            core::mem::forget(o);
        }
        Input::SnapFullyFilled => snap(orders, OrderState::fully_filled()),
        Input::SnapFailed => snap(orders, OrderState::inactive(OrderError::Connectivity(ConnectivityError::Timeout))),
        Input::SnapExpired => snap(orders, OrderState::expired()),
        Input::CancelOk(t) => {
            let response: OrderResponseCancel = OrderResponseCancel { key: key("a"), state: Ok(Cancelled { id: oid(1), time_exchange: time_at(t) }) };
            orders.update_from_cancel_response(&response);
            core::mem::forget(response);
        }
        Input::CancelErr => {
            let response: OrderResponseCancel = OrderResponseCancel { key: key("a"), state: Err(OrderError::Connectivity(ConnectivityError::Timeout)) };
            orders.update_from_cancel_response(&response);
            core::mem::forget(response);
        }
    }
}

fn held(st: St) -> Option<(u8, u8, u8)> {
    match st {
        St::Open(t, f, g) => Some((t, f, g)),
        St::Cif(o) => o,
        _ => None,
    }
}

/// Reference lifecycle, from the property text. `None` = the text does not pin the exact outcome of this cell
/// (only the generic clauses - monotone timestamps, no invented data, bystander untouched - are asserted).
fn expected(pre: St, input: Input) -> Option<St> {
    Some(match input {
        // an order becomes tracked when a request for it is sent
        Input::OpenRequest => St::Oif,
        // the tracked order a cancel request addresses is from then on shown as in flight, remembering the last confirmed open state
        Input::CancelRequest => match pre {
            St::Untracked => St::Untracked,
            other => St::Cif(held(other)),
        },
        // it stops being tracked as soon as the exchange reports it cancelled, fully filled, expired or failed, or confirms a cancel
        Input::SnapCancelled(_) | Input::SnapFullyFilled | Input::SnapFailed | Input::SnapExpired | Input::CancelOk(_) => St::Untracked,
        // a failed cancel restores the last exchange-confirmed open state
        Input::CancelErr => match pre {
            St::Cif(Some((t, f, g))) => St::Open(t, f, g),
            St::Cif(None) => return None,
            other => other,
        },
        Input::SnapInFlight => match pre {
            St::Untracked => St::Oif,
            other => other,
        },
        // the exchange reports it open: tracked with the newest report; an 'open' report with nothing left to fill ends tracking
        Input::SnapOpen(t, f) => {
            let newest = held(pre).is_none_or(|(t0, _, _)| t0 <= t);
            if !newest {
                pre
            } else if f == QUANTITY {
                St::Untracked
            } else {
                match pre {
                    St::Cif(_) => St::Cif(Some((t, f, 1))),
                    _ => St::Open(t, f, 1),
                }
            }
        }
        Input::SnapCif(o) => match pre {
            St::Untracked => St::Cif(o.map(|(t, f)| (t, f, 1))),
            St::Oif => St::Cif(o.map(|(t, f)| (t, f, 1))),
            St::Open(t0, f0, g0) => match o {
                Some((t, f)) if t0 <= t => St::Cif(Some((t, f, 1))),
                _ => St::Cif(Some((t0, f0, g0))),
            },
            St::Cif(_) => return None,
        },
    })
}

fn cell(pre_kind: u8, input_kind: u8, bystander_kind: u8, bystander_first: bool) {
    let pre = any_pre(pre_kind, 0);
    let bystander = any_bystander(bystander_kind);
    let input = any_input(input_kind);
    let mut orders = orders_from(pre, bystander, bystander_first);
    #[cfg(barter_rs_barter_rs_verif)]
    {
        // map shape is concrete by construction; say so explicitly (keeps CBMC's constant propagation alive)
        assert!(orders.0.len == if pre_kind == 0 { 1 } else { 2 });
    }
    apply(&mut orders, input);
    let post = observe(&orders, "a");
    let bystander_post = observe(&orders, "b");
    // reports about one order never change another
    assert!(bystander_post == bystander, "C01: a report about one order changed another order");
    assert!(orders.0.len() == 1 + (post != St::Untracked) as usize, "C01: number of tracked orders inconsistent");
    // exchange-reported data never moves back to an older exchange timestamp
    if let (Some((t0, _, _)), Some((t1, _, _))) = (held(pre), held(post)) {
        assert!(t1 >= t0, "C01: exchange-reported order data moved back to an older exchange timestamp");
    }
    // held data was actually delivered (either the one held before or the one in this input)
    if let Some((t, f, g)) = held(post) {
        let from_pre = held(pre) == Some((t, f, g));
        let from_input = match input {
            Input::SnapOpen(ti, fi) => g == 1 && t == ti && f == fi,
            Input::SnapCif(Some((ti, fi))) => g == 1 && t == ti && f == fi,
            _ => false,
        };
        assert!(from_pre || from_input, "C01: held exchange data was never delivered");
    }
    match expected(pre, input) {
        Some(want) => assert!(post == want, "C01: tracked state differs from the documented lifecycle"),
        None => {}
    }
    kani::cover!(true, "cell reached");
    // reachability witnesses for the interesting sub-cases of the open-report cells (trivially satisfied elsewhere)
    let open_report_on_confirmed = input_kind == 3 && pre_kind >= 2;
    kani::cover!(!open_report_on_confirmed || post == St::Untracked, "open report with nothing left to fill ends tracking");
    kani::cover!(!(open_report_on_confirmed && pre_kind != 3) || (post == pre && held(pre).is_some()), "stale open report ignored");
    core::mem::forget(orders);
}

macro_rules! cells {
    ($( $name:ident: $pre:expr, $input:expr, $by:expr, $first:expr; )*) => { $(
        proof! {
            #[kani::unwind(26)]
            fn $name() { cell($pre, $input, $by, $first) }
        }
    )* };
}

// quick: all 60 cells, bystander kind / position rotated over the cells
cells! {
    c01_q_untracked_open_request: 0, 0, 1, true;
    c01_q_oif_open_request: 1, 0, 2, false;
    c01_q_open_open_request: 2, 0, 3, true;
    c01_q_cifn_open_request: 3, 0, 4, false;
    c01_q_cifs_open_request: 4, 0, 1, true;
    c01_q_untracked_cancel_request: 0, 1, 2, false;
    c01_q_oif_cancel_request: 1, 1, 3, true;
    c01_q_open_cancel_request: 2, 1, 4, false;
    c01_q_cifn_cancel_request: 3, 1, 1, true;
    c01_q_cifs_cancel_request: 4, 1, 2, false;
    c01_q_untracked_snap_inflight: 0, 2, 3, true;
    c01_q_oif_snap_inflight: 1, 2, 4, false;
    c01_q_open_snap_inflight: 2, 2, 1, true;
    c01_q_cifn_snap_inflight: 3, 2, 2, false;
    c01_q_cifs_snap_inflight: 4, 2, 3, true;
    c01_q_untracked_snap_open: 0, 3, 4, false;
    c01_q_oif_snap_open: 1, 3, 1, true;
    c01_q_open_snap_open: 2, 3, 2, false;
    c01_q_cifn_snap_open: 3, 3, 3, true;
    c01_q_cifs_snap_open: 4, 3, 4, false;
    c01_q_untracked_snap_cifn: 0, 4, 1, true;
    c01_q_oif_snap_cifn: 1, 4, 2, false;
    c01_q_open_snap_cifn: 2, 4, 3, true;
    c01_q_cifn_snap_cifn: 3, 4, 4, false;
    c01_q_cifs_snap_cifn: 4, 4, 1, true;
    c01_q_untracked_snap_cifs: 0, 5, 2, false;
    c01_q_oif_snap_cifs: 1, 5, 3, true;
    c01_q_open_snap_cifs: 2, 5, 4, false;
    c01_q_cifn_snap_cifs: 3, 5, 1, true;
    c01_q_cifs_snap_cifs: 4, 5, 2, false;
    c01_q_untracked_snap_cancelled: 0, 6, 3, true;
    c01_q_oif_snap_cancelled: 1, 6, 4, false;
    c01_q_open_snap_cancelled: 2, 6, 1, true;
    c01_q_cifn_snap_cancelled: 3, 6, 2, false;
    c01_q_cifs_snap_cancelled: 4, 6, 3, true;
    c01_q_untracked_snap_filled: 0, 7, 4, false;
    c01_q_oif_snap_filled: 1, 7, 1, true;
    c01_q_open_snap_filled: 2, 7, 2, false;
    c01_q_cifn_snap_filled: 3, 7, 3, true;
    c01_q_cifs_snap_filled: 4, 7, 4, false;
    c01_q_untracked_snap_failed: 0, 8, 1, true;
    c01_q_oif_snap_failed: 1, 8, 2, false;
    c01_q_open_snap_failed: 2, 8, 3, true;
    c01_q_cifn_snap_failed: 3, 8, 4, false;
    c01_q_cifs_snap_failed: 4, 8, 1, true;
    c01_q_untracked_snap_expired: 0, 9, 2, false;
    c01_q_oif_snap_expired: 1, 9, 3, true;
    c01_q_open_snap_expired: 2, 9, 4, false;
    c01_q_cifn_snap_expired: 3, 9, 1, true;
    c01_q_cifs_snap_expired: 4, 9, 2, false;
    c01_q_untracked_cancel_ok: 0, 10, 3, true;
    c01_q_oif_cancel_ok: 1, 10, 4, false;
    c01_q_open_cancel_ok: 2, 10, 1, true;
    c01_q_cifn_cancel_ok: 3, 10, 2, false;
    c01_q_cifs_cancel_ok: 4, 10, 3, true;
    c01_q_untracked_cancel_err: 0, 11, 4, false;
    c01_q_oif_cancel_err: 1, 11, 1, true;
    c01_q_open_cancel_err: 2, 11, 2, false;
    c01_q_cifn_cancel_err: 3, 11, 3, true;
    c01_q_cifs_cancel_err: 4, 11, 4, false;
}

// thorough: every cell with every bystander kind (position alternating)
cells! {
    c01_t_untracked_open_request_by_oif: 0, 0, 1, true;
    c01_t_untracked_open_request_by_open: 0, 0, 2, false;
    c01_t_untracked_open_request_by_cifn: 0, 0, 3, true;
    c01_t_untracked_open_request_by_cifs: 0, 0, 4, false;
    c01_t_oif_open_request_by_oif: 1, 0, 1, false;
    c01_t_oif_open_request_by_open: 1, 0, 2, true;
    c01_t_oif_open_request_by_cifn: 1, 0, 3, false;
    c01_t_oif_open_request_by_cifs: 1, 0, 4, true;
    c01_t_open_open_request_by_oif: 2, 0, 1, true;
    c01_t_open_open_request_by_open: 2, 0, 2, false;
    c01_t_open_open_request_by_cifn: 2, 0, 3, true;
    c01_t_open_open_request_by_cifs: 2, 0, 4, false;
    c01_t_cifn_open_request_by_oif: 3, 0, 1, false;
    c01_t_cifn_open_request_by_open: 3, 0, 2, true;
    c01_t_cifn_open_request_by_cifn: 3, 0, 3, false;
    c01_t_cifn_open_request_by_cifs: 3, 0, 4, true;
    c01_t_cifs_open_request_by_oif: 4, 0, 1, true;
    c01_t_cifs_open_request_by_open: 4, 0, 2, false;
    c01_t_cifs_open_request_by_cifn: 4, 0, 3, true;
    c01_t_cifs_open_request_by_cifs: 4, 0, 4, false;
    c01_t_untracked_cancel_request_by_oif: 0, 1, 1, false;
    c01_t_untracked_cancel_request_by_open: 0, 1, 2, true;
    c01_t_untracked_cancel_request_by_cifn: 0, 1, 3, false;
    c01_t_untracked_cancel_request_by_cifs: 0, 1, 4, true;
    c01_t_oif_cancel_request_by_oif: 1, 1, 1, true;
    c01_t_oif_cancel_request_by_open: 1, 1, 2, false;
    c01_t_oif_cancel_request_by_cifn: 1, 1, 3, true;
    c01_t_oif_cancel_request_by_cifs: 1, 1, 4, false;
    c01_t_open_cancel_request_by_oif: 2, 1, 1, false;
    c01_t_open_cancel_request_by_open: 2, 1, 2, true;
    c01_t_open_cancel_request_by_cifn: 2, 1, 3, false;
    c01_t_open_cancel_request_by_cifs: 2, 1, 4, true;
    c01_t_cifn_cancel_request_by_oif: 3, 1, 1, true;
    c01_t_cifn_cancel_request_by_open: 3, 1, 2, false;
    c01_t_cifn_cancel_request_by_cifn: 3, 1, 3, true;
    c01_t_cifn_cancel_request_by_cifs: 3, 1, 4, false;
    c01_t_cifs_cancel_request_by_oif: 4, 1, 1, false;
    c01_t_cifs_cancel_request_by_open: 4, 1, 2, true;
    c01_t_cifs_cancel_request_by_cifn: 4, 1, 3, false;
    c01_t_cifs_cancel_request_by_cifs: 4, 1, 4, true;
    c01_t_untracked_snap_inflight_by_oif: 0, 2, 1, true;
    c01_t_untracked_snap_inflight_by_open: 0, 2, 2, false;
    c01_t_untracked_snap_inflight_by_cifn: 0, 2, 3, true;
    c01_t_untracked_snap_inflight_by_cifs: 0, 2, 4, false;
    c01_t_oif_snap_inflight_by_oif: 1, 2, 1, false;
    c01_t_oif_snap_inflight_by_open: 1, 2, 2, true;
    c01_t_oif_snap_inflight_by_cifn: 1, 2, 3, false;
    c01_t_oif_snap_inflight_by_cifs: 1, 2, 4, true;
    c01_t_open_snap_inflight_by_oif: 2, 2, 1, true;
    c01_t_open_snap_inflight_by_open: 2, 2, 2, false;
    c01_t_open_snap_inflight_by_cifn: 2, 2, 3, true;
    c01_t_open_snap_inflight_by_cifs: 2, 2, 4, false;
    c01_t_cifn_snap_inflight_by_oif: 3, 2, 1, false;
    c01_t_cifn_snap_inflight_by_open: 3, 2, 2, true;
    c01_t_cifn_snap_inflight_by_cifn: 3, 2, 3, false;
    c01_t_cifn_snap_inflight_by_cifs: 3, 2, 4, true;
    c01_t_cifs_snap_inflight_by_oif: 4, 2, 1, true;
    c01_t_cifs_snap_inflight_by_open: 4, 2, 2, false;
    c01_t_cifs_snap_inflight_by_cifn: 4, 2, 3, true;
    c01_t_cifs_snap_inflight_by_cifs: 4, 2, 4, false;
    c01_t_untracked_snap_open_by_oif: 0, 3, 1, false;
    c01_t_untracked_snap_open_by_open: 0, 3, 2, true;
    c01_t_untracked_snap_open_by_cifn: 0, 3, 3, false;
    c01_t_untracked_snap_open_by_cifs: 0, 3, 4, true;
    c01_t_oif_snap_open_by_oif: 1, 3, 1, true;
    c01_t_oif_snap_open_by_open: 1, 3, 2, false;
    c01_t_oif_snap_open_by_cifn: 1, 3, 3, true;
    c01_t_oif_snap_open_by_cifs: 1, 3, 4, false;
    c01_t_open_snap_open_by_oif: 2, 3, 1, false;
    c01_t_open_snap_open_by_open: 2, 3, 2, true;
    c01_t_open_snap_open_by_cifn: 2, 3, 3, false;
    c01_t_open_snap_open_by_cifs: 2, 3, 4, true;
    c01_t_cifn_snap_open_by_oif: 3, 3, 1, true;
    c01_t_cifn_snap_open_by_open: 3, 3, 2, false;
    c01_t_cifn_snap_open_by_cifn: 3, 3, 3, true;
    c01_t_cifn_snap_open_by_cifs: 3, 3, 4, false;
    c01_t_cifs_snap_open_by_oif: 4, 3, 1, false;
    c01_t_cifs_snap_open_by_open: 4, 3, 2, true;
    c01_t_cifs_snap_open_by_cifn: 4, 3, 3, false;
    c01_t_cifs_snap_open_by_cifs: 4, 3, 4, true;
    c01_t_untracked_snap_cifn_by_oif: 0, 4, 1, true;
    c01_t_untracked_snap_cifn_by_open: 0, 4, 2, false;
    c01_t_untracked_snap_cifn_by_cifn: 0, 4, 3, true;
    c01_t_untracked_snap_cifn_by_cifs: 0, 4, 4, false;
    c01_t_oif_snap_cifn_by_oif: 1, 4, 1, false;
    c01_t_oif_snap_cifn_by_open: 1, 4, 2, true;
    c01_t_oif_snap_cifn_by_cifn: 1, 4, 3, false;
    c01_t_oif_snap_cifn_by_cifs: 1, 4, 4, true;
    c01_t_open_snap_cifn_by_oif: 2, 4, 1, true;
    c01_t_open_snap_cifn_by_open: 2, 4, 2, false;
    c01_t_open_snap_cifn_by_cifn: 2, 4, 3, true;
    c01_t_open_snap_cifn_by_cifs: 2, 4, 4, false;
    c01_t_cifn_snap_cifn_by_oif: 3, 4, 1, false;
    c01_t_cifn_snap_cifn_by_open: 3, 4, 2, true;
    c01_t_cifn_snap_cifn_by_cifn: 3, 4, 3, false;
    c01_t_cifn_snap_cifn_by_cifs: 3, 4, 4, true;
    c01_t_cifs_snap_cifn_by_oif: 4, 4, 1, true;
    c01_t_cifs_snap_cifn_by_open: 4, 4, 2, false;
    c01_t_cifs_snap_cifn_by_cifn: 4, 4, 3, true;
    c01_t_cifs_snap_cifn_by_cifs: 4, 4, 4, false;
    c01_t_untracked_snap_cifs_by_oif: 0, 5, 1, false;
    c01_t_untracked_snap_cifs_by_open: 0, 5, 2, true;
    c01_t_untracked_snap_cifs_by_cifn: 0, 5, 3, false;
    c01_t_untracked_snap_cifs_by_cifs: 0, 5, 4, true;
    c01_t_oif_snap_cifs_by_oif: 1, 5, 1, true;
    c01_t_oif_snap_cifs_by_open: 1, 5, 2, false;
    c01_t_oif_snap_cifs_by_cifn: 1, 5, 3, true;
    c01_t_oif_snap_cifs_by_cifs: 1, 5, 4, false;
    c01_t_open_snap_cifs_by_oif: 2, 5, 1, false;
    c01_t_open_snap_cifs_by_open: 2, 5, 2, true;
    c01_t_open_snap_cifs_by_cifn: 2, 5, 3, false;
    c01_t_open_snap_cifs_by_cifs: 2, 5, 4, true;
    c01_t_cifn_snap_cifs_by_oif: 3, 5, 1, true;
    c01_t_cifn_snap_cifs_by_open: 3, 5, 2, false;
    c01_t_cifn_snap_cifs_by_cifn: 3, 5, 3, true;
    c01_t_cifn_snap_cifs_by_cifs: 3, 5, 4, false;
    c01_t_cifs_snap_cifs_by_oif: 4, 5, 1, false;
    c01_t_cifs_snap_cifs_by_open: 4, 5, 2, true;
    c01_t_cifs_snap_cifs_by_cifn: 4, 5, 3, false;
    c01_t_cifs_snap_cifs_by_cifs: 4, 5, 4, true;
    c01_t_untracked_snap_cancelled_by_oif: 0, 6, 1, true;
    c01_t_untracked_snap_cancelled_by_open: 0, 6, 2, false;
    c01_t_untracked_snap_cancelled_by_cifn: 0, 6, 3, true;
    c01_t_untracked_snap_cancelled_by_cifs: 0, 6, 4, false;
    c01_t_oif_snap_cancelled_by_oif: 1, 6, 1, false;
    c01_t_oif_snap_cancelled_by_open: 1, 6, 2, true;
    c01_t_oif_snap_cancelled_by_cifn: 1, 6, 3, false;
    c01_t_oif_snap_cancelled_by_cifs: 1, 6, 4, true;
    c01_t_open_snap_cancelled_by_oif: 2, 6, 1, true;
    c01_t_open_snap_cancelled_by_open: 2, 6, 2, false;
    c01_t_open_snap_cancelled_by_cifn: 2, 6, 3, true;
    c01_t_open_snap_cancelled_by_cifs: 2, 6, 4, false;
    c01_t_cifn_snap_cancelled_by_oif: 3, 6, 1, false;
    c01_t_cifn_snap_cancelled_by_open: 3, 6, 2, true;
    c01_t_cifn_snap_cancelled_by_cifn: 3, 6, 3, false;
    c01_t_cifn_snap_cancelled_by_cifs: 3, 6, 4, true;
    c01_t_cifs_snap_cancelled_by_oif: 4, 6, 1, true;
    c01_t_cifs_snap_cancelled_by_open: 4, 6, 2, false;
    c01_t_cifs_snap_cancelled_by_cifn: 4, 6, 3, true;
    c01_t_cifs_snap_cancelled_by_cifs: 4, 6, 4, false;
    c01_t_untracked_snap_filled_by_oif: 0, 7, 1, false;
    c01_t_untracked_snap_filled_by_open: 0, 7, 2, true;
    c01_t_untracked_snap_filled_by_cifn: 0, 7, 3, false;
    c01_t_untracked_snap_filled_by_cifs: 0, 7, 4, true;
    c01_t_oif_snap_filled_by_oif: 1, 7, 1, true;
    c01_t_oif_snap_filled_by_open: 1, 7, 2, false;
    c01_t_oif_snap_filled_by_cifn: 1, 7, 3, true;
    c01_t_oif_snap_filled_by_cifs: 1, 7, 4, false;
    c01_t_open_snap_filled_by_oif: 2, 7, 1, false;
    c01_t_open_snap_filled_by_open: 2, 7, 2, true;
    c01_t_open_snap_filled_by_cifn: 2, 7, 3, false;
    c01_t_open_snap_filled_by_cifs: 2, 7, 4, true;
    c01_t_cifn_snap_filled_by_oif: 3, 7, 1, true;
    c01_t_cifn_snap_filled_by_open: 3, 7, 2, false;
    c01_t_cifn_snap_filled_by_cifn: 3, 7, 3, true;
    c01_t_cifn_snap_filled_by_cifs: 3, 7, 4, false;
    c01_t_cifs_snap_filled_by_oif: 4, 7, 1, false;
    c01_t_cifs_snap_filled_by_open: 4, 7, 2, true;
    c01_t_cifs_snap_filled_by_cifn: 4, 7, 3, false;
    c01_t_cifs_snap_filled_by_cifs: 4, 7, 4, true;
    c01_t_untracked_snap_failed_by_oif: 0, 8, 1, true;
    c01_t_untracked_snap_failed_by_open: 0, 8, 2, false;
    c01_t_untracked_snap_failed_by_cifn: 0, 8, 3, true;
    c01_t_untracked_snap_failed_by_cifs: 0, 8, 4, false;
    c01_t_oif_snap_failed_by_oif: 1, 8, 1, false;
    c01_t_oif_snap_failed_by_open: 1, 8, 2, true;
    c01_t_oif_snap_failed_by_cifn: 1, 8, 3, false;
    c01_t_oif_snap_failed_by_cifs: 1, 8, 4, true;
    c01_t_open_snap_failed_by_oif: 2, 8, 1, true;
    c01_t_open_snap_failed_by_open: 2, 8, 2, false;
    c01_t_open_snap_failed_by_cifn: 2, 8, 3, true;
    c01_t_open_snap_failed_by_cifs: 2, 8, 4, false;
    c01_t_cifn_snap_failed_by_oif: 3, 8, 1, false;
    c01_t_cifn_snap_failed_by_open: 3, 8, 2, true;
    c01_t_cifn_snap_failed_by_cifn: 3, 8, 3, false;
    c01_t_cifn_snap_failed_by_cifs: 3, 8, 4, true;
    c01_t_cifs_snap_failed_by_oif: 4, 8, 1, true;
    c01_t_cifs_snap_failed_by_open: 4, 8, 2, false;
    c01_t_cifs_snap_failed_by_cifn: 4, 8, 3, true;
    c01_t_cifs_snap_failed_by_cifs: 4, 8, 4, false;
    c01_t_untracked_snap_expired_by_oif: 0, 9, 1, false;
    c01_t_untracked_snap_expired_by_open: 0, 9, 2, true;
    c01_t_untracked_snap_expired_by_cifn: 0, 9, 3, false;
    c01_t_untracked_snap_expired_by_cifs: 0, 9, 4, true;
    c01_t_oif_snap_expired_by_oif: 1, 9, 1, true;
    c01_t_oif_snap_expired_by_open: 1, 9, 2, false;
    c01_t_oif_snap_expired_by_cifn: 1, 9, 3, true;
    c01_t_oif_snap_expired_by_cifs: 1, 9, 4, false;
    c01_t_open_snap_expired_by_oif: 2, 9, 1, false;
    c01_t_open_snap_expired_by_open: 2, 9, 2, true;
    c01_t_open_snap_expired_by_cifn: 2, 9, 3, false;
    c01_t_open_snap_expired_by_cifs: 2, 9, 4, true;
    c01_t_cifn_snap_expired_by_oif: 3, 9, 1, true;
    c01_t_cifn_snap_expired_by_open: 3, 9, 2, false;
    c01_t_cifn_snap_expired_by_cifn: 3, 9, 3, true;
    c01_t_cifn_snap_expired_by_cifs: 3, 9, 4, false;
    c01_t_cifs_snap_expired_by_oif: 4, 9, 1, false;
    c01_t_cifs_snap_expired_by_open: 4, 9, 2, true;
    c01_t_cifs_snap_expired_by_cifn: 4, 9, 3, false;
    c01_t_cifs_snap_expired_by_cifs: 4, 9, 4, true;
    c01_t_untracked_cancel_ok_by_oif: 0, 10, 1, true;
    c01_t_untracked_cancel_ok_by_open: 0, 10, 2, false;
    c01_t_untracked_cancel_ok_by_cifn: 0, 10, 3, true;
    c01_t_untracked_cancel_ok_by_cifs: 0, 10, 4, false;
    c01_t_oif_cancel_ok_by_oif: 1, 10, 1, false;
    c01_t_oif_cancel_ok_by_open: 1, 10, 2, true;
    c01_t_oif_cancel_ok_by_cifn: 1, 10, 3, false;
    c01_t_oif_cancel_ok_by_cifs: 1, 10, 4, true;
    c01_t_open_cancel_ok_by_oif: 2, 10, 1, true;
    c01_t_open_cancel_ok_by_open: 2, 10, 2, false;
    c01_t_open_cancel_ok_by_cifn: 2, 10, 3, true;
    c01_t_open_cancel_ok_by_cifs: 2, 10, 4, false;
    c01_t_cifn_cancel_ok_by_oif: 3, 10, 1, false;
    c01_t_cifn_cancel_ok_by_open: 3, 10, 2, true;
    c01_t_cifn_cancel_ok_by_cifn: 3, 10, 3, false;
    c01_t_cifn_cancel_ok_by_cifs: 3, 10, 4, true;
    c01_t_cifs_cancel_ok_by_oif: 4, 10, 1, true;
    c01_t_cifs_cancel_ok_by_open: 4, 10, 2, false;
    c01_t_cifs_cancel_ok_by_cifn: 4, 10, 3, true;
    c01_t_cifs_cancel_ok_by_cifs: 4, 10, 4, false;
    c01_t_untracked_cancel_err_by_oif: 0, 11, 1, false;
    c01_t_untracked_cancel_err_by_open: 0, 11, 2, true;
    c01_t_untracked_cancel_err_by_cifn: 0, 11, 3, false;
    c01_t_untracked_cancel_err_by_cifs: 0, 11, 4, true;
    c01_t_oif_cancel_err_by_oif: 1, 11, 1, true;
    c01_t_oif_cancel_err_by_open: 1, 11, 2, false;
    c01_t_oif_cancel_err_by_cifn: 1, 11, 3, true;
    c01_t_oif_cancel_err_by_cifs: 1, 11, 4, false;
    c01_t_open_cancel_err_by_oif: 2, 11, 1, false;
    c01_t_open_cancel_err_by_open: 2, 11, 2, true;
    c01_t_open_cancel_err_by_cifn: 2, 11, 3, false;
    c01_t_open_cancel_err_by_cifs: 2, 11, 4, true;
    c01_t_cifn_cancel_err_by_oif: 3, 11, 1, true;
    c01_t_cifn_cancel_err_by_open: 3, 11, 2, false;
    c01_t_cifn_cancel_err_by_cifn: 3, 11, 3, true;
    c01_t_cifn_cancel_err_by_cifs: 3, 11, 4, false;
    c01_t_cifs_cancel_err_by_oif: 4, 11, 1, false;
    c01_t_cifs_cancel_err_by_open: 4, 11, 2, true;
    c01_t_cifs_cancel_err_by_cifn: 4, 11, 3, false;
    c01_t_cifs_cancel_err_by_cifs: 4, 11, 4, true;
}

proof! {
    #[kani::unwind(26)]
    fn c01_twin_must_fail() {
        let mut orders = orders_from(any_pre(2, 0), St::Oif, true);
        apply(&mut orders, Input::SnapFullyFilled);
        core::mem::forget(orders);
        assert!(false, "twin");
    }
}
