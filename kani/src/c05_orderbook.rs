//! C05 — the local L2 order book equals a price->amount map after any event sequence.
//!
//! One inductive step from an ARBITRARY valid side (strictly ordered, non-zero amounts) with a CONCRETE number of
//! levels per harness (a symbolic length does not terminate) and an arbitrary upsert list; the reference is an
//! association list with set/delete semantics. Book-level harnesses cover `OrderBook::update` (Update / Snapshot),
//! best bid/ask, mid-price, volume-weighted mid-price and depth-limited snapshots.
use crate::{gens::*, proof};
use barter_data::{
    books::{Asks, Bids, Level, OrderBook, OrderBookSide, mid_price, volume_weighted_mid_price},
    subscription::book::OrderBookEvent,
};
use rust_decimal::Decimal;

const PB: u32 = 3; // price bits
const AB: u32 = 2; // amount bits

fn any_level_nonzero() -> Level {
    Level { price: dec_u(PB), amount: dec_pos(AB) }
}
fn any_update_level() -> Level {
    Level { price: dec_u(PB), amount: dec_u(AB) } // amount 0 = delete
}

/// `true` when `a` sorts strictly before `b` on this side (asks ascending, bids descending).
fn before(asks: bool, a: Decimal, b: Decimal) -> bool {
    if asks { a < b } else { a > b }
}

fn any_sorted<const N: usize>(asks: bool) -> [Level; N] {
    let levels: [Level; N] = core::array::from_fn(|_| any_level_nonzero());
    let mut i = 1;
    while i < N {
        assume(before(asks, levels[i - 1].price, levels[i].price));
        i += 1;
    }
    levels
}

/// Reference map: amount held for `price` after applying `updates` in order to `pre` (0 = absent).
fn expected_amount<const N: usize, const U: usize>(pre: &[Level; N], updates: &[Level; U], price: Decimal) -> Decimal {
    let mut amount = Decimal::ZERO;
    let mut i = 0;
    while i < N {
        if pre[i].price == price { amount = pre[i].amount; }
        i += 1;
    }
    let mut j = 0;
    while j < U {
        if updates[j].price == price { amount = updates[j].amount; }
        j += 1;
    }
    amount
}

fn check_side<const N: usize, const U: usize>(asks: bool, pre: &[Level; N], updates: &[Level; U], got: &[Level]) {
    assert!(got.len() <= N + U, "C05: more levels than the map can hold");
    // strict side order, no duplicate price, no zero amount, every held level is the map's
    let mut k = 0;
    while k < got.len() {
        if k > 0 {
            assert!(before(asks, got[k - 1].price, got[k].price), "C05: side not strictly ordered / duplicate price");
        }
        assert!(!got[k].amount.is_zero(), "C05: level with zero amount held");
        assert!(got[k].amount == expected_amount(pre, updates, got[k].price), "C05: held amount differs from the price->amount map");
        k += 1;
    }
    // every price the map holds is held by the book (pre levels and update levels)
    let held = |price: Decimal| {
        let mut k = 0;
        while k < got.len() {
            if got[k].price == price { return true; }
            k += 1;
        }
        false
    };
    let mut i = 0;
    while i < N {
        assert!(held(pre[i].price) == !expected_amount(pre, updates, pre[i].price).is_zero(), "C05: level lost or not deleted");
        i += 1;
    }
    let mut j = 0;
    while j < U {
        assert!(held(updates[j].price) == !expected_amount(pre, updates, updates[j].price).is_zero(), "C05: update level not applied");
        j += 1;
    }
}

fn asks_step<const N: usize, const U: usize>() {
    let pre = any_sorted::<N>(true);
    let updates: [Level; U] = core::array::from_fn(|_| any_update_level());
    let mut side = OrderBookSide::asks(pre);
    assert!(side.levels().len() == N);
    side.upsert(updates);
    check_side(true, &pre, &updates, side.levels());
    kani::cover!(side.levels().len() == N + U, "all updates inserted new levels");
    kani::cover!(N == 0 || side.levels().len() < N, "a level was deleted");
    core::mem::forget(side);
}
fn bids_step<const N: usize, const U: usize>() {
    let pre = any_sorted::<N>(false);
    let updates: [Level; U] = core::array::from_fn(|_| any_update_level());
    let mut side = OrderBookSide::bids(pre);
    assert!(side.levels().len() == N);
    side.upsert(updates);
    check_side(false, &pre, &updates, side.levels());
    kani::cover!(side.levels().len() == N + U, "all updates inserted new levels");
    kani::cover!(N == 0 || side.levels().len() < N, "a level was deleted");
    core::mem::forget(side);
}

proof! { #[kani::unwind(8)] fn c05_q_asks_n0_u1() { asks_step::<0, 1>() } }
proof! { #[kani::unwind(8)] fn c05_q_asks_n1_u1() { asks_step::<1, 1>() } }
proof! { #[kani::unwind(8)] fn c05_q_asks_n2_u1() { asks_step::<2, 1>() } }
proof! { #[kani::unwind(8)] fn c05_q_bids_n0_u1() { bids_step::<0, 1>() } }
proof! { #[kani::unwind(8)] fn c05_q_bids_n1_u1() { bids_step::<1, 1>() } }
proof! { #[kani::unwind(8)] fn c05_q_bids_n2_u1() { bids_step::<2, 1>() } }
proof! { #[kani::unwind(8)] fn c05_t_asks_n3_u1() { asks_step::<3, 1>() } }
proof! { #[kani::unwind(8)] fn c05_t_bids_n3_u1() { bids_step::<3, 1>() } }
// (two-element update lists were tried - first element constrained so that the intermediate length stays concrete - and did
//  not fit: 690 s and > 24 GB for the empty side. An update list is applied by `for_each(upsert_single)`, i.e. as the
//  sequence of single upserts that the one-step harnesses cover by induction.)
// (the same price twice inside ONE update list - last occurrence wins - was also tried with every intermediate length kept
//  concrete: 600 s with unreachable cover witnesses for the empty side and > 20 GB for one level. Lists stay outside the claim.)
// book level: an Update event applies both sides and takes the event's sequence / time; derived quantities are the map's
proof! {
    #[kani::unwind(8)]
    fn c05_q_book_update() {
        let (bids0, asks0) = (any_sorted::<1>(false), any_sorted::<1>(true));
        let mut book = OrderBook::new(any_u64(), None, bids0, asks0);
        let (ub, ua): ([Level; 1], [Level; 1]) = ([any_update_level()], [any_update_level()]);
        let sequence: u64 = any_u64();
        let t = time(4);
        book.update(OrderBookEvent::Update(OrderBook::new(sequence, Some(t), ub, ua)));
        assert!(book.sequence == sequence && book.time_engine == Some(t), "C05: sequence / time are not those of the last applied event");
        check_side(false, &bids0, &ub, book.bids().levels());
        check_side(true, &asks0, &ua, book.asks().levels());
        // best bid / ask, mid-price and volume-weighted mid-price are those of the first levels
        let (bb, ba) = (book.bids().levels().first().copied(), book.asks().levels().first().copied());
        match (bb, ba) {
            (Some(b), Some(a)) => {
                assert!(deq_opt(book.mid_price(), Some((b.price + a.price) / Decimal::TWO)), "C05: mid-price");
                assert!(deq_opt(book.volume_weighed_mid_price(), Some((b.price * a.amount + a.price * b.amount) / (b.amount + a.amount))), "C05: volume-weighted mid-price");
            }
            (Some(b), None) => assert!(book.mid_price() == Some(b.price) && book.volume_weighed_mid_price() == Some(b.price), "C05: one-sided book price"),
            (None, Some(a)) => assert!(book.mid_price() == Some(a.price) && book.volume_weighed_mid_price() == Some(a.price), "C05: one-sided book price"),
            (None, None) => assert!(book.mid_price().is_none() && book.volume_weighed_mid_price().is_none(), "C05: empty book has no price"),
        }
        kani::cover!(bb.is_some() && ba.is_some(), "two-sided");
        kani::cover!(bb.is_none() && ba.is_none(), "emptied");
        core::mem::forget(book);
    }
}

// a Snapshot event replaces the book; depth-limited snapshots are prefixes
proof! {
    #[kani::unwind(8)]
    fn c05_q_book_snapshot() {
        let mut book = OrderBook::new(any_u64(), None, any_sorted::<1>(false), any_sorted::<1>(true));
        // asymmetric sides: one bid level, two ask levels
        let (bids1, asks1) = (any_sorted::<1>(false), any_sorted::<2>(true));
        let sequence: u64 = any_u64();
        book.update(OrderBookEvent::Snapshot(OrderBook::new(sequence, None, bids1, asks1)));
        assert!(book.sequence == sequence, "C05: sequence is not the snapshot's");
        assert!(book.bids().levels() == &bids1[..] && book.asks().levels() == &asks1[..], "C05: snapshot did not replace the book");
        // depth is concrete per call (a symbolic depth makes the Vec length symbolic)
        let mut depth = 0;
        while depth <= 3 {
            let top = book.snapshot(depth);
            let (want_b, want_a) = (if depth < 1 { depth } else { 1 }, if depth < 2 { depth } else { 2 });
            assert!(top.sequence == sequence);
            assert!(top.bids().levels() == &bids1[..want_b] && top.asks().levels() == &asks1[..want_a], "C05: depth-limited snapshot is not the prefix of each side");
            core::mem::forget(top);
            depth += 1;
        }
        kani::cover!(true, "reached");
        core::mem::forget(book);
    }
}

// the replacement itself on minimal books (cheap even when the code under test is wrong): a Snapshot event always
// replaces levels, sequence and time, whatever the sequence numbers are
proof! {
    #[kani::unwind(8)]
    fn c05_q_book_snapshot_replaces() {
        let mut book = OrderBook::new(any_u64(), Some(time(4)), any_sorted::<0>(false), any_sorted::<1>(true));
        let (bids1, asks1) = (any_sorted::<1>(false), any_sorted::<0>(true));
        let sequence: u64 = any_u64();
        let had = book.sequence;
        book.update(OrderBookEvent::Snapshot(OrderBook::new(sequence, None, bids1, asks1)));
        assert!(book.sequence == sequence && book.time_engine.is_none(), "C05: sequence / time are not the snapshot's");
        assert!(book.bids().levels() == &bids1[..] && book.asks().levels().is_empty(), "C05: snapshot did not replace the book");
        kani::cover!(sequence < had, "snapshot with a lower sequence than the local book");
        kani::cover!(sequence > had, "snapshot with a higher sequence");
        core::mem::forget(book);
    }
}

proof! {
    #[kani::unwind(8)]
    fn c05_twin_must_fail() {
        let mut side = OrderBookSide::asks(any_sorted::<1>(true));
        side.upsert([any_update_level()]);
        core::mem::forget(side);
        assert!(false, "twin");
    }
}
