//! Bounded generators for domain values (all `kani::any()` based) and comparison helpers.
//!
//! Nothing here touches the Decimal model directly: rationals are built with the (stubbed)
//! operators, so the same harness source runs under Kani on the exact-rational model and natively
//! (`cargo kani playback`, stubs not applied) on the real `rust_decimal`.
use crate::env::misc::is_native;
use chrono::{DateTime, TimeDelta, Utc};
use rust_decimal::Decimal;

/// Unsigned integer Decimal in `[0, 2^bits)`.
pub fn dec_u(bits: u32) -> Decimal {
    let v: u8 = kani::any();
    kani::assume((v as u32) < (1u32 << bits));
    Decimal::from(v)
}

/// Unsigned integer Decimal in `[1, 2^bits)`.
pub fn dec_pos(bits: u32) -> Decimal {
    let v: u8 = kani::any();
    kani::assume(v >= 1 && (v as u32) < (1u32 << bits));
    Decimal::from(v)
}

/// Signed integer Decimal in `(-2^bits, 2^bits)`.
pub fn dec_i(bits: u32) -> Decimal {
    let v: i8 = kani::any();
    kani::assume((v as i32) > -(1i32 << bits) && (v as i32) < (1i32 << bits));
    Decimal::from(v)
}

/// Non-negative rational `n/d`, `n < 2^bits`, `1 <= d <= dmax`.
pub fn dec_q(bits: u32, dmax: u8) -> Decimal {
    let n: u8 = kani::any();
    let d: u8 = kani::any();
    kani::assume((n as u32) < (1u32 << bits));
    kani::assume(d >= 1 && d <= dmax);
    if d == 1 { Decimal::from(n) } else { Decimal::from(n) / Decimal::from(d) }
}

/// Signed rational `n/d`, `|n| < 2^bits`, `1 <= d <= dmax`.
pub fn dec_qi(bits: u32, dmax: u8) -> Decimal {
    let n: i8 = kani::any();
    let d: u8 = kani::any();
    kani::assume((n as i32) > -(1i32 << bits) && (n as i32) < (1i32 << bits));
    kani::assume(d >= 1 && d <= dmax);
    if d == 1 { Decimal::from(n) } else { Decimal::from(n) / Decimal::from(d) }
}

/// Exact equality under Kani (rational model); equality up to 1e-18 when replayed natively on the
/// real 28-digit `rust_decimal` (the property texts say "up to decimal rounding").
pub fn deq(a: Decimal, b: Decimal) -> bool {
    if is_native() { (a - b).abs() <= Decimal::new(1, 18) } else { a == b }
}

pub fn deq_opt(a: Option<Decimal>, b: Option<Decimal>) -> bool {
    match (a, b) {
        (Some(a), Some(b)) => deq(a, b),
        (None, None) => true,
        _ => false,
    }
}

/// Timestamp `MIN_UTC + s` seconds, `s < bound` symbolic.
pub fn time(bound: u8) -> DateTime<Utc> {
    let s: u8 = kani::any();
    kani::assume(s < bound);
    time_at(s)
}

pub fn time_at(s: u8) -> DateTime<Utc> {
    DateTime::<Utc>::MIN_UTC + TimeDelta::seconds(s as i64)
}
