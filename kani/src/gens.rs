//! Bounded generators for domain values (all `kani::any()` based) and comparison helpers.
//!
//! Nothing here touches the Decimal model directly: rationals are built with the (stubbed)
//! operators, so the same harness source runs under Kani on the exact-rational model and natively
//! (`cargo kani playback`, stubs not applied) on the real `rust_decimal`.
use crate::env::misc::is_native;
use chrono::{DateTime, TimeDelta, Utc};
use rust_decimal::Decimal;

// ---- nondeterministic inputs --------------------------------------------------------------------------------
// Every symbolic input of every harness comes from one of the `any_*` functions below. Under Kani they are
// `kani::any()` + `kani::assume(range)` (quantified by the solver). Natively (when a solver-found violation is
// REPLAYED against the real code, stubs off) they read the next digit of an enumeration script, so that
// `native_search` can walk the same bounded input space concretely and exhibit a failing input in seconds;
// the solver stays the deciding step, the native search only confirms its verdict on the real build.

// The two implementations are selected at compile time: `--cfg verif_native` is set by /verif/check for the native
// replay build only (thread-locals and catch_unwind must not even be reachable for kani-compiler).
#[cfg(not(verif_native))]
mod source {
    pub fn assume(cond: bool) {
        kani::assume(cond);
    }
    pub fn any_bool() -> bool {
        kani::any()
    }
    /// `lo..=hi`
    pub fn any_int_in(lo: i64, hi: i64) -> i64 {
        let v: i64 = kani::any();
        kani::assume(v >= lo && v <= hi);
        v
    }
    pub fn any_u8_lt(n: u8) -> u8 {
        let v: u8 = kani::any();
        kani::assume(v < n);
        v
    }
    pub fn any_u8_in(lo: u8, hi: u8) -> u8 {
        let v: u8 = kani::any();
        kani::assume(v >= lo && v <= hi);
        v
    }
    pub fn any_i8_in(lo: i8, hi: i8) -> i8 {
        let v: i8 = kani::any();
        kani::assume(v >= lo && v <= hi);
        v
    }
    pub fn any_usize_lt(n: usize) -> usize {
        let v: usize = kani::any();
        kani::assume(v < n);
        v
    }
    pub fn any_u64() -> u64 {
        kani::any()
    }
}

#[cfg(verif_native)]
mod source {
    use std::cell::RefCell;

    thread_local! {
        static SCRIPT: RefCell<Script> = RefCell::new(Script::default());
    }
    #[derive(Default)]
    struct Script {
        digits: Vec<(u64, u64)>, // (value, radix)
        pos: usize,
    }
    struct AssumeFailed;

    fn digit(radix: u64) -> u64 {
        SCRIPT.with(|s| {
            let mut s = s.borrow_mut();
            if s.pos == s.digits.len() {
                s.digits.push((0, radix));
            }
            let (v, _) = s.digits[s.pos];
            s.pos += 1;
            v
        })
    }

    /// Full-range 64-bit values are enumerated natively from a small candidate set (boundary values); a violation
    /// whose witnesses all lie outside it is left to Kani's own concrete playback.
    const U64_CANDIDATES: [u64; 10] = [0, 1, 2, 3, 4, 5, 6, u64::MAX - 2, u64::MAX - 1, u64::MAX];

    pub fn assume(cond: bool) {
        if !cond {
            std::panic::panic_any(AssumeFailed);
        }
    }
    pub fn any_bool() -> bool {
        digit(2) == 1
    }
    pub fn any_int_in(lo: i64, hi: i64) -> i64 {
        lo + digit((hi - lo + 1) as u64) as i64
    }
    pub fn any_u8_lt(n: u8) -> u8 {
        digit(n as u64) as u8
    }
    pub fn any_u8_in(lo: u8, hi: u8) -> u8 {
        lo + digit((hi - lo + 1) as u64) as u8
    }
    pub fn any_i8_in(lo: i8, hi: i8) -> i8 {
        (lo as i64 + digit((hi as i64 - lo as i64 + 1) as u64) as i64) as i8
    }
    pub fn any_usize_lt(n: usize) -> usize {
        digit(n as u64) as usize
    }
    pub fn any_u64() -> u64 {
        U64_CANDIDATES[digit(U64_CANDIDATES.len() as u64) as usize]
    }

    /// Runs `harness` once natively on a recorded script; returns the panic message if it fails.
    pub fn native_replay(harness: fn(), script: &[u64]) -> Option<String> {
        let prev = std::panic::take_hook();
        std::panic::set_hook(Box::new(|_| {}));
        SCRIPT.with(|s| *s.borrow_mut() = Script { digits: script.iter().map(|v| (*v, u64::MAX)).collect(), pos: 0 });
        let result = std::panic::catch_unwind(harness);
        std::panic::set_hook(prev);
        match result {
            Ok(()) => None,
            Err(payload) if payload.is::<AssumeFailed>() => None,
            Err(payload) => Some(if let Some(m) = payload.downcast_ref::<String>() {
                m.clone()
            } else if let Some(m) = payload.downcast_ref::<&str>() {
                m.to_string()
            } else {
                String::from("<non-string panic>")
            }),
        }
    }

    /// Walks the bounded input space of `harness` natively (depth-first over the `any_*` digits, pruning at failed
    /// assumptions) until a run panics with anything other than a failed assumption. Returns the failing script and
    /// the panic message, or None if `max_runs` runs (or the whole space) passed.
    pub fn native_search(harness: fn(), max_runs: u64) -> Option<(Vec<u64>, String)> {
        let prev = std::panic::take_hook();
        std::panic::set_hook(Box::new(|_| {}));
        SCRIPT.with(|s| *s.borrow_mut() = Script::default());
        let mut runs = 0u64;
        let mut found = None;
        loop {
            SCRIPT.with(|s| s.borrow_mut().pos = 0);
            let result = std::panic::catch_unwind(harness);
            runs += 1;
            let consumed = SCRIPT.with(|s| s.borrow().pos);
            if let Err(payload) = result {
                if !payload.is::<AssumeFailed>() {
                    let message = if let Some(m) = payload.downcast_ref::<String>() {
                        m.clone()
                    } else if let Some(m) = payload.downcast_ref::<&str>() {
                        m.to_string()
                    } else {
                        String::from("<non-string panic>")
                    };
                    let script = SCRIPT.with(|s| s.borrow().digits[..consumed].iter().map(|d| d.0).collect());
                    found = Some((script, message));
                    break;
                }
            }
            // advance the odometer: drop digits that were not consumed, then increment the last one that can be
            let exhausted = SCRIPT.with(|s| {
                let mut s = s.borrow_mut();
                s.digits.truncate(consumed);
                while let Some((v, r)) = s.digits.pop() {
                    if v + 1 < r {
                        s.digits.push((v + 1, r));
                        return false;
                    }
                }
                true
            });
            if exhausted || runs >= max_runs {
                break;
            }
        }
        std::panic::set_hook(prev);
        eprintln!("native_search: {runs} runs, found = {}", found.is_some());
        found
    }
}
pub use source::*;

/// Unsigned integer Decimal in `[0, 2^bits)`.
pub fn dec_u(bits: u32) -> Decimal {
    Decimal::from(any_u8_lt(1u8 << bits))
}

/// Unsigned integer Decimal in `[1, 2^bits)`.
pub fn dec_pos(bits: u32) -> Decimal {
    Decimal::from(any_u8_in(1, (1u8 << bits) - 1))
}

/// Signed integer Decimal in `(-2^bits, 2^bits)`.
pub fn dec_i(bits: u32) -> Decimal {
    let m = (1i8 << bits) - 1;
    Decimal::from(any_i8_in(-m, m))
}

/// Non-negative rational `n/d`, `n < 2^bits`, `1 <= d <= dmax`.
pub fn dec_q(bits: u32, dmax: u8) -> Decimal {
    let n = any_u8_lt(1u8 << bits);
    let d = any_u8_in(1, dmax);
    if d == 1 { Decimal::from(n) } else { Decimal::from(n) / Decimal::from(d) }
}

/// Signed rational `n/d`, `|n| < 2^bits`, `1 <= d <= dmax`.
pub fn dec_qi(bits: u32, dmax: u8) -> Decimal {
    let m = (1i8 << bits) - 1;
    let n = any_i8_in(-m, m);
    let d = any_u8_in(1, dmax);
    if d == 1 { Decimal::from(n) } else { Decimal::from(n) / Decimal::from(d) }
}

/// Exact equality under Kani (rational model); equality up to 1e-18 when replayed natively on the
/// real 28-digit `rust_decimal` (the property texts say "up to decimal rounding").
pub fn deq(a: Decimal, b: Decimal) -> bool {
    if is_native() { (a - b).abs() <= Decimal::new(1, 18) } else { a == b }
}

pub fn deq_opt(a: Option<Decimal>, b: Option<Decimal>) -> bool {
    match (a, b) {
        (Some(a), Some(b)) => deq(a, b),
        (None, None) => true,
        _ => false,
    }
}

/// Timestamp `MIN_UTC + s` seconds, `s < bound` symbolic.
pub fn time(bound: u8) -> DateTime<Utc> {
    time_at(any_u8_lt(bound))
}

pub fn time_at(s: u8) -> DateTime<Utc> {
    DateTime::<Utc>::MIN_UTC + TimeDelta::seconds(s as i64)
}
