//! C03 — order requests: sent => delivered once and in flight; refused / failed => neither.
//!
//! Claimed (see props.py): the single-request primitive `SendRequests::send_request` and the routing of in-flight marks by
//! `EngineState`. The batch actions (`send_requests`, `generate_algo_orders`, `close_positions`: drafts/c03_requests_full.rs)
//! did not fit: their `Vec<(request, EngineError)>` results are dropped / iterated with solver-unknown lengths and every
//! `EngineError` owns a `String`, whose deallocation on solver-unknown pointers exhausts memory (20 GB for ONE request).
//! Harness types: an array-backed
//! in-flight recorder as State, an execution-link table whose links record every delivered request and fail
//! according to a SYMBOLIC per-exchange fault pattern {healthy, closed (unrecoverable), unhealthy (recoverable),
//! missing}, a scripted strategy whose requests carry SYMBOLIC exchange indices (incl. an unknown index), and a
//! risk manager with SYMBOLIC approve / refuse bits.
use crate::{gens::*, proof};
use barter::{
    Sequence,
    engine::{
        Engine, EngineMeta,
        action::{
            close_positions::ClosePositions,
            generate_algo_orders::GenerateAlgoOrders,
            send_requests::{SendRequests, SendRequestsOutput},
        },
        error::{EngineError, UnrecoverableEngineError},
        execution_tx::ExecutionTxMap,
        state::{instrument::filter::InstrumentFilter, order::in_flight_recorder::InFlightRequestRecorder},
    },
    execution::request::ExecutionRequest,
    risk::{RiskApproved, RiskManager, RiskRefused},
    strategy::{algo::AlgoStrategy, close_positions::ClosePositionsStrategy},
};
use barter_execution::order::{
    OrderKey, OrderKind, TimeInForce,
    id::{ClientOrderId, StrategyId},
    request::{OrderRequestCancel, OrderRequestOpen, RequestCancel, RequestOpen},
};
use barter_instrument::{Side, exchange::ExchangeIndex, index::error::IndexError, instrument::InstrumentIndex};
use barter_integration::{Unrecoverable, channel::Tx};
use rust_decimal::Decimal;
use smol_str::SmolStr;

// ---- execution links ------------------------------------------------------------------------------------
#[derive(Clone, Copy, PartialEq, Eq, Debug)]
enum Link {
    Healthy,
    Closed,    // channel gone: unrecoverable
    Unhealthy, // recoverable
    Missing,   // the exchange has no link
}
fn any_link() -> Link {
    let k = any_u8_lt(4);
    match k { 0 => Link::Healthy, 1 => Link::Closed, 2 => Link::Unhealthy, _ => Link::Missing }
}

/// Delivery log shared by all links (harness-global; Kani and the native replay are single threaded).
const LOG_CAP: usize = 8;
static mut LOG: [Option<(usize, u8, u8)>; LOG_CAP] = [None; LOG_CAP]; // (exchange link, kind 0 cancel / 1 open, request tag)
static mut LOG_LEN: usize = 0;
fn log_reset() {
    unsafe {
        LOG = [None; LOG_CAP];
        LOG_LEN = 0;
    }
}
fn delivered(exchange: usize, kind: u8, tag: u8) -> usize {
    let mut n = 0;
    let mut i = 0;
    unsafe {
        while i < LOG_LEN {
            if LOG[i] == Some((exchange, kind, tag)) { n += 1; }
            i += 1;
        }
    }
    n
}
fn delivered_total() -> usize {
    unsafe { LOG_LEN }
}

#[derive(Debug)]
struct LinkError(bool);
impl Unrecoverable for LinkError {
    fn is_unrecoverable(&self) -> bool { self.0 }
}
#[derive(Debug, Clone)]
struct RecordingTx { exchange: usize, link: Link }
fn tag_of(cid: &ClientOrderId) -> u8 {
    let mut t = 0u8;
    while t < 4 && *cid != cid_of(t) { t += 1; }
    t
}
impl Tx for RecordingTx {
    type Item = ExecutionRequest;
    type Error = LinkError;
    fn send<Item: Into<Self::Item>>(&self, item: Item) -> Result<(), Self::Error> {
        match self.link {
            Link::Healthy => {
                let (kind, tag) = match item.into() {
                    ExecutionRequest::Cancel(r) => { let t = tag_of(&r.key.cid); core::mem::forget(r); (0, t) }
                    ExecutionRequest::Open(r) => { let t = tag_of(&r.key.cid); core::mem::forget(r); (1, t) }
                    ExecutionRequest::Shutdown => (2, 0),
                };
                unsafe {
                    assert!(LOG_LEN < LOG_CAP);
                    LOG[LOG_LEN] = Some((self.exchange, kind, tag));
                    LOG_LEN += 1;
                }
                Ok(())
            }
            Link::Closed => Err(LinkError(true)),
            Link::Unhealthy => Err(LinkError(false)),
            Link::Missing => unreachable!("a missing link is never found"),
        }
    }
}
#[derive(Debug)]
struct Links([RecordingTx; 2]);
impl ExecutionTxMap<ExchangeIndex, InstrumentIndex> for Links {
    type ExecutionTx = RecordingTx;
    fn find(&self, exchange: &ExchangeIndex) -> Result<&RecordingTx, UnrecoverableEngineError> {
        if exchange.0 < 2 && self.0[exchange.0].link != Link::Missing {
            Ok(&self.0[exchange.0])
        } else {
            Err(UnrecoverableEngineError::IndexError(IndexError::ExchangeIndex(String::new())))
        }
    }
    fn iter<'a>(&'a self) -> impl Iterator<Item = &'a RecordingTx> where RecordingTx: 'a {
        self.0.iter()
    }
}

// ---- state: array-backed in-flight recorder ----------------------------------------------------------------
#[derive(Default)]
struct Recorder { cancels: [u8; 4], opens: [u8; 4] } // times each request tag was recorded in flight
impl InFlightRequestRecorder<ExchangeIndex, InstrumentIndex> for Recorder {
    fn record_in_flight_cancel(&mut self, request: &OrderRequestCancel<ExchangeIndex, InstrumentIndex>) {
        self.cancels[tag_of(&request.key.cid) as usize] += 1;
    }
    fn record_in_flight_open(&mut self, request: &OrderRequestOpen<ExchangeIndex, InstrumentIndex>) {
        self.opens[tag_of(&request.key.cid) as usize] += 1;
    }
}

// ---- scripted strategy / risk ---------------------------------------------------------------------------------
fn cid_of(tag: u8) -> ClientOrderId {
    match tag {
        0 => ClientOrderId(SmolStr::new_inline("c0")),
        1 => ClientOrderId(SmolStr::new_inline("c1")),
        2 => ClientOrderId(SmolStr::new_inline("c2")),
        _ => ClientOrderId(SmolStr::new_inline("c3")),
    }
}
fn key(exchange: usize, tag: u8) -> OrderKey {
    OrderKey { exchange: ExchangeIndex(exchange), instrument: InstrumentIndex(tag as usize), strategy: StrategyId(SmolStr::new_inline("s")), cid: cid_of(tag) }
}
fn cancel(exchange: usize, tag: u8) -> OrderRequestCancel {
    OrderRequestCancel { key: key(exchange, tag), state: RequestCancel { id: None } }
}
fn open(exchange: usize, tag: u8) -> OrderRequestOpen {
    OrderRequestOpen { key: key(exchange, tag), state: RequestOpen { side: Side::Buy, price: Decimal::ONE, quantity: Decimal::ONE, kind: OrderKind::Market, time_in_force: TimeInForce::ImmediateOrCancel } }
}
/// exchange index of a request: 0, 1 (known) or 2 (an exchange index the engine has no link table entry for)
fn any_exchange() -> usize {
    let x = any_usize_lt(3);
    x
}

struct Script { cancel_exchange: usize, open_exchange: usize }
impl AlgoStrategy for Script {
    type State = Recorder;
    fn generate_algo_orders(&self, _: &Recorder) -> (impl IntoIterator<Item = OrderRequestCancel>, impl IntoIterator<Item = OrderRequestOpen>) {
        ([cancel(self.cancel_exchange, 0)], [open(self.open_exchange, 1)])
    }
}
impl ClosePositionsStrategy for Script {
    type State = Recorder;
    fn close_positions_requests<'a>(&'a self, _: &'a Recorder, _: &'a InstrumentFilter) -> (impl IntoIterator<Item = OrderRequestCancel> + 'a, impl IntoIterator<Item = OrderRequestOpen> + 'a)
    where ExchangeIndex: 'a, InstrumentIndex: 'a {
        ([cancel(self.cancel_exchange, 0)], [open(self.open_exchange, 1)])
    }
}
struct Gate { approve_cancel: bool, approve_open: bool }
impl RiskManager for Gate {
    type State = Recorder;
    fn check(&self, _: &Recorder, cancels: impl IntoIterator<Item = OrderRequestCancel>, opens: impl IntoIterator<Item = OrderRequestOpen>) -> (
        impl IntoIterator<Item = RiskApproved<OrderRequestCancel>>, impl IntoIterator<Item = RiskApproved<OrderRequestOpen>>,
        impl IntoIterator<Item = RiskRefused<OrderRequestCancel>>, impl IntoIterator<Item = RiskRefused<OrderRequestOpen>>,
    ) {
        let (mut ca, mut cr, mut oa, mut or) = (Vec::new(), Vec::new(), Vec::new(), Vec::new());
        for c in cancels { if self.approve_cancel { ca.push(RiskApproved(c)) } else { cr.push(RiskRefused { item: c, reason: String::new() }) } }
        for o in opens { if self.approve_open { oa.push(RiskApproved(o)) } else { or.push(RiskRefused { item: o, reason: String::new() }) } }
        (ca, oa, cr, or)
    }
}

type Eng = Engine<(), Recorder, Links, Script, Gate>;
fn engine(links: [Link; 2], script: Script, gate: Gate) -> Eng {
    log_reset();
    Engine {
        clock: (),
        meta: EngineMeta { time_start: time_at(0), sequence: Sequence(0) },
        state: Recorder::default(),
        execution_txs: Links([RecordingTx { exchange: 0, link: links[0] }, RecordingTx { exchange: 1, link: links[1] }]),
        strategy: script,
        risk: gate,
    }
}

/// Expected fate of one request addressed to `exchange` under the fault pattern.
#[derive(PartialEq, Eq, Clone, Copy)]
enum Fate { Sent, FatalError, RecoverableError }
fn fate(links: &[Link; 2], exchange: usize) -> Fate {
    if exchange >= 2 { return Fate::FatalError; }
    match links[exchange] {
        Link::Healthy => Fate::Sent,
        Link::Closed | Link::Missing => Fate::FatalError,
        Link::Unhealthy => Fate::RecoverableError,
    }
}

fn check_output<Kind>(out: &SendRequestsOutput<Kind>, kind: u8, tag: u8, exchange: usize, want: Option<Fate>) {
    // want = None: the request must not appear at all (refused)
    let sent = out.sent.iter().filter(|r| r.key.cid == cid_of(tag)).count();
    let errs = out.errors.iter().filter(|(r, _)| r.key.cid == cid_of(tag)).count();
    match want {
        None => {
            assert!(sent == 0 && errs == 0, "C03: a refused request was reported as sent or failed");
            assert!(delivered(0, kind, tag) + delivered(1, kind, tag) == 0, "C03: a refused request was delivered");
        }
        Some(Fate::Sent) => {
            assert!(sent == 1 && errs == 0, "C03: a deliverable request is not reported as sent exactly once");
            assert!(delivered(exchange, kind, tag) == 1, "C03: a request reported as sent was not delivered exactly once to its exchange's link");
            assert!(delivered(1 - exchange, kind, tag) == 0, "C03: a request was delivered to another exchange's link");
        }
        Some(f) => {
            assert!(sent == 0 && errs == 1, "C03: a failed delivery is not reported together with its error");
            assert!(delivered(0, kind, tag) + delivered(1, kind, tag) == 0, "C03: a request whose delivery failed was delivered");
            let fatal = out.errors.iter().any(|(r, e)| r.key.cid == cid_of(tag) && matches!(e, EngineError::Unrecoverable(_)));
            assert!(fatal == (f == Fate::FatalError), "C03: error severity (fatal iff the link is gone or missing)");
        }
    }
}

proof! {
    #[kani::unwind(10)]
    fn c03_q_send_request_primitive() {
        let links = [any_link(), any_link()];
        let eng = engine(links, Script { cancel_exchange: 0, open_exchange: 0 }, Gate { approve_cancel: true, approve_open: true });
        let x0 = any_exchange();
        let request = open(x0, 2);
        let result = eng.send_request(&request);
        match fate(&links, x0) {
            Fate::Sent => {
                assert!(result.is_ok(), "C03: deliverable request failed");
                assert!(delivered(x0, 1, 2) == 1 && delivered_total() == 1, "C03: a sent request was not delivered exactly once to its exchange's link");
            }
            Fate::FatalError => {
                assert!(matches!(result, Err(EngineError::Unrecoverable(_))), "C03: a gone / missing link must be a fatal error");
                assert!(delivered_total() == 0, "C03: a failed request was delivered");
            }
            Fate::RecoverableError => {
                assert!(matches!(result, Err(EngineError::Recoverable(_))), "C03: an unhealthy link must be a recoverable error");
                assert!(delivered_total() == 0, "C03: a failed request was delivered");
            }
        }
        kani::cover!(fate(&links, x0) == Fate::Sent, "sent");
        kani::cover!(x0 == 2, "unknown exchange index");
        kani::cover!(fate(&links, x0) == Fate::RecoverableError, "unhealthy link");
        core::mem::forget((result, request, eng));
    }
}

// the REAL link table (MultiExchangeTxMap; under the hook an inline association list): a request naming exchange index x is
// handed to exactly the link stored at position x, and an exchange without a link (None entry) or an unknown index is a fatal
// error - link-less exchanges must not shift the positions of the others
proof! {
    #[kani::unwind(10)]
    fn c03_q_real_link_table() {
        use barter::engine::execution_tx::MultiExchangeTxMap;
        use barter_instrument::exchange::ExchangeId;
        log_reset();
        // exchange 0 has no link, exchanges 1 and 2 have; the links' fault patterns are symbolic
        let (l1, l2) = (any_link(), any_link());
        assume(l1 != Link::Missing && l2 != Link::Missing);
        let txs: MultiExchangeTxMap<RecordingTx> = [
            (ExchangeId::BinanceSpot, None),
            (ExchangeId::Kraken, Some(RecordingTx { exchange: 1, link: l1 })),
            (ExchangeId::Okx, Some(RecordingTx { exchange: 2, link: l2 })),
        ].into_iter().collect();
        let eng = Engine { clock: (), meta: EngineMeta { time_start: time_at(0), sequence: Sequence(0) }, state: Recorder::default(), execution_txs: txs,
            strategy: Script { cancel_exchange: 0, open_exchange: 0 }, risk: Gate { approve_cancel: true, approve_open: true } };
        let x = any_usize_lt(4);
        let request = open(x, 2);
        let result = eng.send_request(&request);
        let link = match x { 1 => Some(l1), 2 => Some(l2), _ => None };
        match link {
            Some(Link::Healthy) => {
                assert!(result.is_ok(), "C03: deliverable request failed");
                assert!(delivered(x, 1, 2) == 1 && delivered_total() == 1, "C03: request not delivered exactly once to the link of the exchange it names");
            }
            Some(Link::Unhealthy) => {
                assert!(matches!(result, Err(EngineError::Recoverable(_))) && delivered_total() == 0, "C03: unhealthy link");
            }
            _ => {
                assert!(matches!(result, Err(EngineError::Unrecoverable(_))), "C03: a request for an exchange without a link (or a closed link) must fail fatally");
                assert!(delivered_total() == 0, "C03: a request for an exchange without a link was delivered to another exchange's link");
            }
        }
        kani::cover!(x == 0, "exchange without a link");
        kani::cover!(x == 2 && l2 == Link::Healthy, "delivered to the last link");
        kani::cover!(x == 3, "unknown exchange index");
        core::mem::forget((result, request, eng));
    }
}

// in-flight marks land on the instrument the request names, and only there (real EngineState as recorder; needs the hook)
fn in_flight_routing(i: usize) {
        use crate::world::*;
        use barter::engine::state::{instrument::data::DefaultInstrumentMarketData, order::{Orders, manager::OrderManager}, position::PositionManager, trading::TradingState};
        use barter_execution::order::state::ActiveOrderState;
        let a = instrument_state(0, instrument(0, "btc_usdt", 0, 1), PositionManager::default(), Orders::default(), DefaultInstrumentMarketData::default());
        let b = instrument_state(1, instrument(1, "eth_usdt", 2, 3), PositionManager::default(), Orders::default(), DefaultInstrumentMarketData::default());
        let mut state = engine_state(TradingState::Enabled, instrument_states_2(("btc_usdt", a), ("eth_usdt", b)));
        // the instrument index is concrete per harness (a solver-chosen index into the map of instrument states makes every
        // write go through a symbolic pointer: out of memory); the request's payload stays symbolic
        let mut request = open(any_usize_lt(2), 1);
        request.key.instrument = InstrumentIndex(i);
        state.record_in_flight_opens([&request]);
        let named = state.instruments.instrument_index(&InstrumentIndex(i));
        let other = state.instruments.instrument_index(&InstrumentIndex(1 - i));
        assert!(other.orders.orders().count() == 0, "C03: an in-flight mark was recorded on another instrument");
        let mut n = 0;
        for order in named.orders.orders() {
            assert!(order.key.cid == cid_of(1) && matches!(order.state, ActiveOrderState::OpenInFlight(_)), "C03: the opened order is not shown as in flight");
            n += 1;
        }
        assert!(n == 1, "C03: the sent open request left no in-flight order on its instrument");
        kani::cover!(true, "reached");
        core::mem::forget((state, request));
}
proof! { #[kani::unwind(10)] fn c03_q_in_flight_routing_instrument0() { in_flight_routing(0) } }
proof! { #[kani::unwind(10)] fn c03_q_in_flight_routing_instrument1() { in_flight_routing(1) } }

// ---- trading-state gating of the real Engine::process ---------------------------------------------------------
// Strategy that counts how often the engine asks it for algo orders / notifies it of disabled trading, and never
// issues a request (the batch send of actual requests does not fit, see the module comment).
static mut ALGO_CALLS: u8 = 0;
static mut DISABLED_CALLS: u8 = 0;
struct Probe;
type GatedState = crate::world::State;
impl AlgoStrategy for Probe {
    type State = GatedState;
    fn generate_algo_orders(&self, _: &GatedState) -> (impl IntoIterator<Item = OrderRequestCancel>, impl IntoIterator<Item = OrderRequestOpen>) {
        unsafe { ALGO_CALLS += 1; }
        (core::iter::empty(), core::iter::empty())
    }
}
impl ClosePositionsStrategy for Probe {
    type State = GatedState;
    fn close_positions_requests<'a>(&'a self, _: &'a GatedState, _: &'a InstrumentFilter) -> (impl IntoIterator<Item = OrderRequestCancel> + 'a, impl IntoIterator<Item = OrderRequestOpen> + 'a)
    where ExchangeIndex: 'a, InstrumentIndex: 'a {
        (core::iter::empty(), core::iter::empty())
    }
}
impl<Clock, State, Txs, Risk> barter::strategy::on_disconnect::OnDisconnectStrategy<Clock, State, Txs, Risk> for Probe {
    type OnDisconnect = ();
    fn on_disconnect(_: &mut Engine<Clock, State, Txs, Self, Risk>, _: barter_instrument::exchange::ExchangeId) {}
}
impl<Clock, State, Txs, Risk> barter::strategy::on_trading_disabled::OnTradingDisabled<Clock, State, Txs, Risk> for Probe {
    type OnTradingDisabled = ();
    fn on_trading_disabled(_: &mut Engine<Clock, State, Txs, Self, Risk>) {
        unsafe { DISABLED_CALLS += 1; }
    }
}

/// event kinds: 0 trading-state update, 1 market item (public trade), 2 shutdown
fn gating(event_kind: u8, before: barter::engine::state::trading::TradingState, update: barter::engine::state::trading::TradingState) {
    use crate::world::*;
    use barter::{EngineEvent, engine::{Processor, clock::LiveClock, state::{instrument::data::{DefaultInstrumentMarketData, InstrumentDataState}, order::Orders, position::PositionManager, trading::TradingState}}, risk::DefaultRiskManager};
    use barter_data::{event::{DataKind, MarketEvent}, streams::consumer::MarketStreamEvent, subscription::trade::PublicTrade};
    use barter_instrument::exchange::ExchangeId;
    unsafe { ALGO_CALLS = 0; DISABLED_CALLS = 0; }
    log_reset();
    let istate = instrument_state(0, instrument(0, "btc_usdt", 0, 1), PositionManager::default(), Orders::default(), DefaultInstrumentMarketData::default());
    let state = engine_state(before, instrument_states_1(("btc_usdt", istate)));
    let mut engine = Engine {
        clock: LiveClock,
        meta: EngineMeta { time_start: time_at(0), sequence: Sequence(0) },
        state,
        execution_txs: Links([RecordingTx { exchange: 0, link: Link::Healthy }, RecordingTx { exchange: 1, link: Link::Healthy }]),
        strategy: Probe,
        risk: DefaultRiskManager::<GatedState>::default(),
    };
    let price = any_u8_in(1, 3);
    let event: EngineEvent<DataKind> = match event_kind {
        0 => EngineEvent::TradingStateUpdate(update),
        1 => EngineEvent::Market(MarketStreamEvent::Item(MarketEvent {
            time_exchange: time_at(2), time_received: time_at(2), exchange: ExchangeId::BinanceSpot, instrument: InstrumentIndex(0),
            kind: DataKind::Trade(PublicTrade { id: String::new(), price: price as f64, amount: 1.0, side: Side::Buy }),
        })),
        _ => EngineEvent::Shutdown(barter::shutdown::Shutdown),
    };
    let audit = engine.process(event);
    let after = engine.state.trading;
    let (algo, disabled) = unsafe { (ALGO_CALLS, DISABLED_CALLS) };
    match event_kind {
        0 => {
            assert!(after == update, "C03: trading state not updated");
            // re-enabling resumes generation on that very event; while disabled nothing is generated
            assert!(algo == (after == TradingState::Enabled) as u8, "C03: strategy asked for orders exactly when trading is enabled after the event");
            assert!(disabled == (before == TradingState::Enabled && update == TradingState::Disabled) as u8, "C03: on-trading-disabled exactly on the transition to disabled");
        }
        1 => {
            assert!(after == before, "C03: a market event changed the trading state");
            assert!(algo == (before == TradingState::Enabled) as u8, "C03: strategy asked for orders although trading is disabled (or not asked although enabled)");
            // the engine keeps updating its state while trading is disabled
            assert!(engine.state.instruments.instrument_index(&InstrumentIndex(0)).data.price() == Some(Decimal::from(price)), "C03: state not updated while trading is disabled");
        }
        _ => {
            assert!(algo == 0 && disabled == 0 && after == before, "C03: shutdown must not generate orders");
        }
    }
    assert!(delivered_total() == 0, "C03: a request was delivered although the strategy generated none");
    kani::cover!(true, "reached");
    core::mem::forget((audit, engine));
}
// Only the cells that end with trading DISABLED fit: with trading enabled `process` calls the batch action
// `generate_algo_orders`, which does not fit even for a strategy that generates nothing (no result in 30 min).
// (a market event processed while disabled - state updated, nothing generated - did not finish in 25 min through Engine::process;
//  the state update itself is checked at the EngineState entry point under C15)
proof! { #[kani::unwind(12)] fn c03_q_gating_disable_while_enabled() { use barter::engine::state::trading::TradingState::*; gating(0, Enabled, Disabled) } }
proof! { #[kani::unwind(12)] fn c03_t_gating_disable_while_disabled() { use barter::engine::state::trading::TradingState::*; gating(0, Disabled, Disabled) } }
proof! { #[kani::unwind(12)] fn c03_t_gating_shutdown_enabled() { use barter::engine::state::trading::TradingState::*; gating(2, Enabled, Enabled) } }

proof! {
    #[kani::unwind(10)]
    fn c03_twin_must_fail() {
        let links = [any_link(), any_link()];
        let eng = engine(links, Script { cancel_exchange: 0, open_exchange: 0 }, Gate { approve_cancel: true, approve_open: true });
        let request = open(any_exchange(), 2);
        let result = eng.send_request(&request);
        core::mem::forget((result, request, eng));
        assert!(false, "twin");
    }
}
