//! Kani proof harnesses over the real barter-rs code (path dependencies on /repo).
//! See /verif/DESIGN.md. Every harness is declared through `proof!{}` which bundles the
//! environment stubs (tracing off, exact-rational Decimal, fixed clock).
#![recursion_limit = "512"]
#![allow(dead_code, unused_imports, unused_macros, clippy::all)]

pub mod env;

/// Declares a Kani proof harness with the standard environment stubs attached.
#[macro_export]
macro_rules! proof {
    ($(#[$m:meta])* fn $name:ident() $body:block) => {
        #[cfg(kani)]
        #[kani::proof]
        #[kani::stub(tracing::callsite::DefaultCallsite::interest, $crate::env::tracing::interest_never)]
        #[kani::stub(tracing::__macro_support::__is_enabled, $crate::env::tracing::never_enabled)]
        #[kani::stub(tracing::Event::dispatch, $crate::env::tracing::dispatch_nop)]
        #[kani::stub(<&rust_decimal::Decimal as core::ops::Add<&rust_decimal::Decimal>>::add, $crate::env::decimal::add)]
        #[kani::stub(<&rust_decimal::Decimal as core::ops::Sub<&rust_decimal::Decimal>>::sub, $crate::env::decimal::sub)]
        #[kani::stub(<&rust_decimal::Decimal as core::ops::Mul<&rust_decimal::Decimal>>::mul, $crate::env::decimal::mul)]
        #[kani::stub(<&rust_decimal::Decimal as core::ops::Div<&rust_decimal::Decimal>>::div, $crate::env::decimal::div)]
        #[kani::stub(<rust_decimal::Decimal as core::cmp::Ord>::cmp, $crate::env::decimal::cmp)]
        #[kani::stub(rust_decimal::Decimal::checked_div, $crate::env::decimal::checked_div)]
        #[kani::stub(rust_decimal::Decimal::checked_mul, $crate::env::decimal::checked_mul)]
        #[kani::stub(rust_decimal::Decimal::checked_add, $crate::env::decimal::checked_add)]
        #[kani::stub(rust_decimal::Decimal::checked_sub, $crate::env::decimal::checked_sub)]
        #[kani::stub(<rust_decimal::Decimal as rust_decimal::MathematicalOps>::sqrt, $crate::env::decimal::sqrt)]
        #[kani::stub(<rust_decimal::Decimal as rust_decimal::prelude::FromPrimitive>::from_f64, $crate::env::misc::decimal_from_f64)]
        #[kani::stub(alloc::fmt::format, $crate::env::misc::fmt_format_empty)]
        #[kani::stub(chrono::Utc::now, $crate::env::misc::utc_now)]
        #[kani::stub($crate::env::misc::is_native, $crate::env::misc::is_native_false)]
        $(#[$m])*
        pub fn $name() $body
    };
}

#[cfg(kani)]
pub mod gens;
#[cfg(kani)]
pub mod world;

#[cfg(kani)]
mod c06_binance_l2;
#[cfg(kani)]
mod c02_position;
#[cfg(kani)]
mod c17_dataset;
#[cfg(kani)]
mod c18_drawdown;
#[cfg(kani)]
mod c16_tearsheet;
#[cfg(kani)]
mod c14_connectivity;
#[cfg(kani)]
mod c01_orders;
#[cfg(kani)]
mod c15_unrealised;
#[cfg(kani)]
mod c05_orderbook;
#[cfg(kani)]
mod c09_no_rollback;
#[cfg(kani)]
mod c03_requests;
#[cfg(kani)]
mod c19_scope;
#[cfg(kani)]
mod c04_index_names;

/// Concrete-playback tests written by the driver (`/verif/check`) when a harness fails; runs the
/// harness natively, without stubs, against the real crates.
#[cfg(all(kani, test))]
mod playback;

/// Native differential test of the Decimal model against the real library (`/verif/check --modelcheck`).
#[cfg(all(kani, test, verif_native))]
mod modelcheck;
