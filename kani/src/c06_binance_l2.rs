//! C06 — Binance L2 sequencing (spot and USD-futures rule sets).
//!
//! One-step harnesses from an arbitrary sequencer state with full 64-bit symbolic ids, plus
//! k-step harnesses (k = 4) over arbitrary message sequences from `new(snapshot_id)`.
use crate::{gens::*, proof};
use barter_data::{
    error::DataError,
    exchange::binance::{
        futures::l2::{BinanceFuturesOrderBookL2Update, BinanceFuturesUsdOrderBookL2Sequencer},
        spot::l2::{BinanceSpotOrderBookL2Sequencer, BinanceSpotOrderBookL2Update},
    },
};
use barter_integration::subscription::SubscriptionId;
use chrono::{DateTime, Utc};

fn spot_update(first: u64, last: u64) -> BinanceSpotOrderBookL2Update {
    BinanceSpotOrderBookL2Update {
        subscription_id: SubscriptionId::from("@depth@100ms|ETHUSDT"),
        time_exchange: DateTime::<Utc>::MIN_UTC,
        first_update_id: first,
        last_update_id: last,
        bids: vec![],
        asks: vec![],
    }
}

fn fut_update(first: u64, last: u64, prev: u64) -> BinanceFuturesOrderBookL2Update {
    BinanceFuturesOrderBookL2Update {
        subscription_id: SubscriptionId::from("@depth@100ms|BTCUSDT"),
        time_exchange: DateTime::<Utc>::MIN_UTC,
        time_engine: DateTime::<Utc>::MIN_UTC,
        first_update_id: first,
        last_update_id: last,
        prev_last_update_id: prev,
        bids: vec![],
        asks: vec![],
    }
}

#[derive(Clone, Copy, PartialEq, Eq)]
enum Verdict {
    Admitted,
    Stale,
    Error,
}

/// Outcome of feeding `(U, u)` to the spot sequencer, with the property assertions of one step.
fn spot_step(seq: &mut BinanceSpotOrderBookL2Sequencer, first: u64, last: u64) -> Verdict {
    let (p0, l0, pl0) = (seq.updates_processed, seq.last_update_id, seq.prev_last_update_id);
    let result = seq.validate_sequence(spot_update(first, last));
    // reference rule (venue's published rule, written independently of the helper methods)
    let stale = last <= l0;
    let ok = if p0 == 0 { first <= l0 + 1 && last >= l0 + 1 } else { first == l0 + 1 };
    match result {
        Ok(Some(out)) => {
            assert!(!stale && ok, "C06 spot: admitted update violates the venue rule");
            assert!(out.first_update_id == first && out.last_update_id == last);
            assert!(seq.last_update_id == last, "C06 spot: state must advance to u");
            assert!(seq.updates_processed == p0 + 1);
            assert!(seq.prev_last_update_id == l0);
            core::mem::forget(out);
            Verdict::Admitted
        }
        Ok(None) => {
            assert!(stale, "C06 spot: a non-stale update was silently dropped");
            assert!(seq.updates_processed == p0 && seq.last_update_id == l0 && seq.prev_last_update_id == pl0);
            Verdict::Stale
        }
        Err(error) => {
            assert!(!stale && !ok, "C06 spot: valid update rejected");
            assert!(error.is_terminal(), "C06 spot: sequence break must be terminal");
            assert!(matches!(
                error,
                DataError::InvalidSequence { prev_last_update_id, first_update_id }
                    if prev_last_update_id == l0 && first_update_id == first
            ));
            assert!(seq.updates_processed == p0 && seq.last_update_id == l0 && seq.prev_last_update_id == pl0);
            core::mem::forget(error);
            Verdict::Error
        }
    }
}

fn fut_step(seq: &mut BinanceFuturesUsdOrderBookL2Sequencer, first: u64, last: u64, prev: u64) -> Verdict {
    let (p0, l0) = (seq.updates_processed, seq.last_update_id);
    let result = seq.validate_sequence(fut_update(first, last, prev));
    let stale = last < l0;
    let ok = if p0 == 0 { first <= l0 && last >= l0 } else { prev == l0 };
    match result {
        Ok(Some(out)) => {
            assert!(!stale && ok, "C06 futures: admitted update violates the venue rule");
            assert!(out.first_update_id == first && out.last_update_id == last && out.prev_last_update_id == prev);
            assert!(seq.last_update_id == last, "C06 futures: state must advance to u");
            assert!(seq.updates_processed == p0 + 1);
            core::mem::forget(out);
            Verdict::Admitted
        }
        Ok(None) => {
            assert!(stale, "C06 futures: a non-stale update was silently dropped");
            assert!(seq.updates_processed == p0 && seq.last_update_id == l0);
            Verdict::Stale
        }
        Err(error) => {
            assert!(!stale && !ok, "C06 futures: valid update rejected");
            assert!(error.is_terminal(), "C06 futures: sequence break must be terminal");
            assert!(matches!(
                error,
                DataError::InvalidSequence { prev_last_update_id, first_update_id }
                    if prev_last_update_id == l0 && first_update_id == first
            ));
            assert!(seq.updates_processed == p0 && seq.last_update_id == l0);
            core::mem::forget(error);
            Verdict::Error
        }
    }
}

proof! {
    #[kani::unwind(26)]
    fn c06_q_spot_step() {
        let mut seq = BinanceSpotOrderBookL2Sequencer {
            updates_processed: any_u64(),
            last_update_id: any_u64(),
            prev_last_update_id: any_u64(),
        };
        // `+ 1` at u64::MAX is outside the claim (panic in dev profile / wrap in release; noted in evidence)
        assume(seq.last_update_id < u64::MAX && seq.updates_processed < u64::MAX);
        let first: u64 = any_u64();
        let last: u64 = any_u64();
        let first_update = seq.updates_processed == 0;
        let v = spot_step(&mut seq, first, last);
        kani::cover!(v == Verdict::Admitted && first_update, "first update admitted");
        kani::cover!(v == Verdict::Admitted && !first_update, "next update admitted");
        kani::cover!(v == Verdict::Stale, "stale dropped");
        kani::cover!(v == Verdict::Error && first_update, "first update rejected");
        kani::cover!(v == Verdict::Error && !first_update, "next update rejected");
    }
}

proof! {
    #[kani::unwind(26)]
    fn c06_q_futures_step() {
        let mut seq = BinanceFuturesUsdOrderBookL2Sequencer {
            updates_processed: any_u64(),
            last_update_id: any_u64(),
        };
        assume(seq.updates_processed < u64::MAX);
        let first: u64 = any_u64();
        let last: u64 = any_u64();
        let prev: u64 = any_u64();
        let first_update = seq.updates_processed == 0;
        let v = fut_step(&mut seq, first, last, prev);
        kani::cover!(v == Verdict::Admitted && first_update, "first update admitted");
        kani::cover!(v == Verdict::Admitted && !first_update, "next update admitted");
        kani::cover!(v == Verdict::Stale, "stale dropped");
        kani::cover!(v == Verdict::Error && first_update, "first update rejected");
        kani::cover!(v == Verdict::Error && !first_update, "next update rejected");
    }
}

const K: usize = 4;

// k-step, spot: for ANY K messages fed after `new(s)`, the admitted ones form an unbroken chain
// (first covers s+1, each next has U == previous admitted u + 1); everything else was either
// stale w.r.t. the last admitted id or surfaced as a terminal error.
proof! {
    #[kani::unwind(26)]
    fn c06_q_spot_chain_safety_k4() {
        let s: u64 = any_u64();
        assume(s < u64::MAX - 1);
        let mut seq = BinanceSpotOrderBookL2Sequencer::new(s);
        let mut last_admitted: u64 = s;
        let mut any_admitted = false;
        let mut admitted = 0usize;
        let mut errors = 0usize;
        let mut i = 0;
        while i < K {
            let first: u64 = any_u64();
            let last: u64 = any_u64();
            assume(last < u64::MAX);
            match spot_step(&mut seq, first, last) {
                Verdict::Admitted => {
                    if any_admitted {
                        assert!(first == last_admitted + 1, "C06 spot: chain broken between admitted updates");
                    } else {
                        assert!(first <= s + 1 && last >= s + 1, "C06 spot: first admitted update does not cover snapshot id + 1");
                    }
                    any_admitted = true;
                    last_admitted = last;
                    admitted += 1;
                }
                Verdict::Stale => assert!(last <= last_admitted),
                Verdict::Error => errors += 1,
            }
            assert!(seq.last_update_id == last_admitted, "C06 spot: reported sequence is the last admitted update's");
            i += 1;
        }
        kani::cover!(admitted == K, "all admitted");
        kani::cover!(admitted == 2 && errors == 2, "mixed");
    }
}

// k = 6 variant (thorough), spot: for ANY 6 messages fed after `new(s)`, the admitted ones form an unbroken chain
// (first covers s+1, each next has U == previous admitted u + 1); everything else was either
// stale w.r.t. the last admitted id or surfaced as a terminal error.
proof! {
    #[kani::unwind(26)]
    fn c06_t_spot_chain_safety_k6() {
        let s: u64 = any_u64();
        assume(s < u64::MAX - 1);
        let mut seq = BinanceSpotOrderBookL2Sequencer::new(s);
        let mut last_admitted: u64 = s;
        let mut any_admitted = false;
        let mut admitted = 0usize;
        let mut errors = 0usize;
        let mut i = 0;
        while i < 6 {
            let first: u64 = any_u64();
            let last: u64 = any_u64();
            assume(last < u64::MAX);
            match spot_step(&mut seq, first, last) {
                Verdict::Admitted => {
                    if any_admitted {
                        assert!(first == last_admitted + 1, "C06 spot: chain broken between admitted updates");
                    } else {
                        assert!(first <= s + 1 && last >= s + 1, "C06 spot: first admitted update does not cover snapshot id + 1");
                    }
                    any_admitted = true;
                    last_admitted = last;
                    admitted += 1;
                }
                Verdict::Stale => assert!(last <= last_admitted),
                Verdict::Error => errors += 1,
            }
            assert!(seq.last_update_id == last_admitted, "C06 spot: reported sequence is the last admitted update's");
            i += 1;
        }
        kani::cover!(admitted == 6, "all admitted");
        kani::cover!(admitted == 2 && errors == 2, "mixed");
    }
}

// k-step, spot, liveness direction: strictly older messages, then a gap-free in-order chain, never errors
// and every chain message that carries news is admitted.
proof! {
    #[kani::unwind(26)]
    fn c06_q_spot_gap_free_never_errors_k4() {
        let s: u64 = any_u64();
        assume(s < u64::MAX - 1);
        let mut seq = BinanceSpotOrderBookL2Sequencer::new(s);
        let n_old = any_usize_lt(K + 1);
        // the exchange's gap-free stream: U_{i+1} = u_i + 1, U_i <= u_i ; the first one delivered may start
        // anywhere at or before s+1 (messages wholly older than the snapshot are the "strictly older" prefix)
        let mut next_first: u64 = any_u64();
        assume(next_first <= s + 1);
        let mut i = 0;
        while i < K {
            let first = next_first;
            let last: u64 = any_u64();
            assume(last >= first && last < u64::MAX - 1);
            if i < n_old {
                assume(last <= s);
            }
            let v = spot_step(&mut seq, first, last);
            assert!(v != Verdict::Error, "C06 spot: gap-free in-order delivery errored");
            if last > s {
                assert!(v == Verdict::Admitted, "C06 spot: in-order update carrying news was not admitted");
            }
            next_first = last + 1;
            i += 1;
        }
        kani::cover!(seq.updates_processed == 2 && n_old == 2, "two old then two admitted");
    }
}

proof! {
    #[kani::unwind(26)]
    fn c06_q_futures_chain_safety_k4() {
        let s: u64 = any_u64();
        let mut seq = BinanceFuturesUsdOrderBookL2Sequencer::new(s);
        let mut last_admitted: u64 = s;
        let mut any_admitted = false;
        let mut admitted = 0usize;
        let mut errors = 0usize;
        let mut i = 0;
        while i < K {
            let first: u64 = any_u64();
            let last: u64 = any_u64();
            let prev: u64 = any_u64();
            match fut_step(&mut seq, first, last, prev) {
                Verdict::Admitted => {
                    if any_admitted {
                        assert!(prev == last_admitted, "C06 futures: chain broken between admitted updates");
                    } else {
                        assert!(first <= s && last >= s, "C06 futures: first admitted update does not cover the snapshot id");
                    }
                    any_admitted = true;
                    last_admitted = last;
                    admitted += 1;
                }
                Verdict::Stale => assert!(last < last_admitted),
                Verdict::Error => errors += 1,
            }
            assert!(seq.last_update_id == last_admitted);
            i += 1;
        }
        kani::cover!(admitted == K, "all admitted");
        kani::cover!(admitted == 2 && errors == 2, "mixed");
    }
}

proof! {
    #[kani::unwind(26)]
    fn c06_t_futures_chain_safety_k6() {
        let s: u64 = any_u64();
        let mut seq = BinanceFuturesUsdOrderBookL2Sequencer::new(s);
        let mut last_admitted: u64 = s;
        let mut any_admitted = false;
        let mut admitted = 0usize;
        let mut errors = 0usize;
        let mut i = 0;
        while i < 6 {
            let first: u64 = any_u64();
            let last: u64 = any_u64();
            let prev: u64 = any_u64();
            match fut_step(&mut seq, first, last, prev) {
                Verdict::Admitted => {
                    if any_admitted {
                        assert!(prev == last_admitted, "C06 futures: chain broken between admitted updates");
                    } else {
                        assert!(first <= s && last >= s, "C06 futures: first admitted update does not cover the snapshot id");
                    }
                    any_admitted = true;
                    last_admitted = last;
                    admitted += 1;
                }
                Verdict::Stale => assert!(last < last_admitted),
                Verdict::Error => errors += 1,
            }
            assert!(seq.last_update_id == last_admitted);
            i += 1;
        }
        kani::cover!(admitted == 6, "all admitted");
        kani::cover!(admitted == 2 && errors == 2, "mixed");
    }
}

proof! {
    #[kani::unwind(26)]
    fn c06_q_futures_gap_free_never_errors_k4() {
        let s: u64 = any_u64();
        let mut seq = BinanceFuturesUsdOrderBookL2Sequencer::new(s);
        let n_old = any_usize_lt(K + 1);
        // exchange stream: pu_{i+1} = u_i, U_i <= u_i, U_{i+1} > u_i
        let mut prev: u64 = any_u64();
        let mut i = 0;
        while i < K {
            let first: u64 = any_u64();
            let last: u64 = any_u64();
            assume(prev < first && first <= last);
            if i < n_old {
                assume(last < s);
            } else if i == n_old {
                // the first message not strictly older than the snapshot covers the snapshot id
                assume(first <= s && last >= s);
            }
            let v = fut_step(&mut seq, first, last, prev);
            assert!(v != Verdict::Error, "C06 futures: gap-free in-order delivery errored");
            if i >= n_old {
                assert!(v == Verdict::Admitted, "C06 futures: in-order update was not admitted");
            }
            prev = last;
            i += 1;
        }
        kani::cover!(seq.updates_processed == 2 && n_old == 2, "two old then two admitted");
    }
}

// vacuity twin: must come back FAILED
proof! {
    #[kani::unwind(26)]
    fn c06_twin_must_fail() {
        let mut seq = BinanceSpotOrderBookL2Sequencer::new(any_u64());
        assume(seq.last_update_id < u64::MAX);
        let _ = spot_step(&mut seq, any_u64(), any_u64());
        assert!(false, "twin");
    }
}
