//! C04 — engine indices and exchange names translate both ways without mix-ups (needs the container hook).
//!
//! Concrete configuration family (strings cannot be symbolic): two exchanges with SHARED asset names, chosen so
//! that global index != per-exchange position. The per-exchange tables handed to the real
//! `ExecutionInstrumentMap::new` are exactly the (global index, name) pairs that
//! `generate_execution_instrument_map` filters out of the global index space. Symbolic: which global
//! asset / instrument index (own, foreign, out of range) and which name (own, foreign, unknown).
use crate::{gens::*, proof};
use barter_execution::{
    indexer::AccountEventIndexer,
    map::ExecutionInstrumentMap,
    order::{OrderEvent, OrderKey, id::{ClientOrderId, StrategyId}, request::RequestCancel},
    balance::{AssetBalance, Balance},
};
use barter_instrument::{
    Keyed,
    asset::{AssetIndex, name::AssetNameExchange},
    exchange::{ExchangeId, ExchangeIndex},
    instrument::{InstrumentIndex, name::InstrumentNameExchange},
};
use barter_integration::collection::FnvIndexMap;
use rust_decimal::Decimal;
use smol_str::SmolStr;

const EXCHANGES: [ExchangeId; 2] = [ExchangeId::BinanceSpot, ExchangeId::Kraken];
/// global asset index -> (exchange, exchange asset name)
const ASSETS: [(usize, &str); 5] = [(0, "btc"), (0, "usdt"), (1, "btc"), (1, "usdt"), (1, "eth")];
/// global instrument index -> (exchange, exchange instrument name)
const INSTRUMENTS: [(usize, &str); 3] = [(0, "btcusdt"), (1, "xbtusdt"), (1, "ethusdt")];
const ASSET_NAMES: [&str; 4] = ["btc", "usdt", "eth", "doge"];
const INSTRUMENT_NAMES: [&str; 4] = ["btcusdt", "xbtusdt", "ethusdt", "dogeusdt"];

fn asset_name(name: &str) -> AssetNameExchange {
    AssetNameExchange::new(SmolStr::new_inline(name))
}
fn instrument_name(name: &str) -> InstrumentNameExchange {
    InstrumentNameExchange::new(SmolStr::new_inline(name))
}

#[cfg(barter_rs_barter_rs_verif)]
fn map_of<K: Eq, V, const N: usize>(items: [(K, V); N]) -> FnvIndexMap<K, V> {
    use barter_integration::collection::verif::{CAP, VecMap};
    let mut it = items.into_iter();
    VecMap { len: N, slots: core::array::from_fn::<_, CAP, _>(|_| it.next()) }
}
#[cfg(not(barter_rs_barter_rs_verif))]
fn map_of<K: Eq + std::hash::Hash, V, const N: usize>(items: [(K, V); N]) -> FnvIndexMap<K, V> {
    items.into_iter().collect()
}

/// The execution-link table of exchange `e` (what generate_execution_instrument_map produces for it).
fn execution_map(e: usize) -> ExecutionInstrumentMap {
    let exchange = Keyed::new(ExchangeIndex(e), EXCHANGES[e]);
    if e == 0 {
        ExecutionInstrumentMap::new(
            exchange,
            map_of([(AssetIndex(0), asset_name("btc")), (AssetIndex(1), asset_name("usdt"))]),
            map_of([(InstrumentIndex(0), instrument_name("btcusdt"))]),
        )
    } else {
        ExecutionInstrumentMap::new(
            exchange,
            map_of([(AssetIndex(2), asset_name("btc")), (AssetIndex(3), asset_name("usdt")), (AssetIndex(4), asset_name("eth"))]),
            map_of([(InstrumentIndex(1), instrument_name("xbtusdt")), (InstrumentIndex(2), instrument_name("ethusdt"))]),
        )
    }
}

fn index_to_name(e: usize) {
    let map = execution_map(e);
    // assets
    let i = any_usize_lt(7);
    let got = map.find_asset_name_exchange(AssetIndex(i));
    let own = i < ASSETS.len() && ASSETS[i].0 == e;
    match &got {
        Ok(name) => {
            assert!(own, "C04: an asset index of another exchange (or out of range) translated on this exchange's link");
            assert!(**name == asset_name(ASSETS[i].1), "C04: asset index translated to the wrong exchange name");
            assert!(map.find_asset_index(name).ok() == Some(AssetIndex(i)), "C04: asset index -> name -> index is not the identity");
        }
        Err(_) => assert!(!own, "C04: an asset index of this exchange did not translate"),
    }
    // instruments
    let j = any_usize_lt(5);
    let got_i = map.find_instrument_name_exchange(InstrumentIndex(j));
    let own_i = j < INSTRUMENTS.len() && INSTRUMENTS[j].0 == e;
    match &got_i {
        Ok(name) => {
            assert!(own_i, "C04: an instrument index of another exchange (or out of range) translated on this exchange's link");
            assert!(**name == instrument_name(INSTRUMENTS[j].1), "C04: instrument index translated to the wrong exchange name");
            assert!(map.find_instrument_index(name).ok() == Some(InstrumentIndex(j)), "C04: instrument index -> name -> index is not the identity");
        }
        Err(_) => assert!(!own_i, "C04: an instrument index of this exchange did not translate"),
    }
    kani::cover!(own && own_i, "own asset and instrument");
    kani::cover!(!own && i < ASSETS.len(), "foreign asset index");
    kani::cover!(!own_i && j < INSTRUMENTS.len(), "foreign instrument index");
    core::mem::forget((got, got_i));
    core::mem::forget(map);
}

fn name_to_index(e: usize) {
    let map = execution_map(e);
    let k = any_usize_lt(4);
    let name = asset_name(ASSET_NAMES[k]);
    let mut want = None;
    let mut i = 0;
    while i < ASSETS.len() {
        if ASSETS[i].0 == e && asset_name(ASSETS[i].1) == name { want = Some(AssetIndex(i)); }
        i += 1;
    }
    let got = map.find_asset_index(&name).ok();
    assert!(got == want, "C04: asset name translated to the wrong index (or a foreign / unknown name translated)");
    if let Some(index) = got {
        assert!(map.find_asset_name_exchange(index).ok() == Some(&name), "C04: asset name -> index -> name is not the identity");
    }
    let m = any_usize_lt(4);
    let iname = instrument_name(INSTRUMENT_NAMES[m]);
    let mut want_i = None;
    let mut j = 0;
    while j < INSTRUMENTS.len() {
        if INSTRUMENTS[j].0 == e && instrument_name(INSTRUMENTS[j].1) == iname { want_i = Some(InstrumentIndex(j)); }
        j += 1;
    }
    let got_i = map.find_instrument_index(&iname).ok();
    assert!(got_i == want_i, "C04: instrument name translated to the wrong index (or a foreign / unknown name translated)");
    if let Some(index) = got_i {
        assert!(map.find_instrument_name_exchange(index).ok() == Some(&iname), "C04: instrument name -> index -> name is not the identity");
    }
    // exchange identity
    let x = any_usize_lt(3);
    assert!(map.find_exchange_id(ExchangeIndex(x)).ok() == if x == e { Some(EXCHANGES[e]) } else { None }, "C04: exchange index translation");
    assert!(map.find_exchange_index(EXCHANGES[1 - e]).is_err() && map.find_exchange_index(EXCHANGES[e]).ok() == Some(ExchangeIndex(e)), "C04: exchange id translation");
    kani::cover!(want.is_some() && want_i.is_some(), "own names");
    kani::cover!(want.is_none(), "foreign or unknown asset name");
    core::mem::forget(map);
}

proof! { #[kani::unwind(26)] fn c04_q_index_to_name_exchange0() { index_to_name(0) } }
proof! { #[kani::unwind(26)] fn c04_q_index_to_name_exchange1() { index_to_name(1) } }
proof! { #[kani::unwind(26)] fn c04_q_name_to_index_exchange0() { name_to_index(0) } }
proof! { #[kani::unwind(26)] fn c04_q_name_to_index_exchange1() { name_to_index(1) } }

// outbound: an order request for instrument j reaches the client addressed to exactly that instrument's exchange name
fn outbound(e: usize) {
    let indexer = AccountEventIndexer::new(std::sync::Arc::new(execution_map(e)));
    let j = any_usize_lt(4);
    let x = any_usize_lt(2);
    let request = OrderEvent {
        key: OrderKey { exchange: ExchangeIndex(x), instrument: InstrumentIndex(j), strategy: StrategyId(SmolStr::new_inline("s")), cid: ClientOrderId(SmolStr::new_inline("c")) },
        state: RequestCancel { id: None },
    };
    let out = indexer.order_request(&request);
    let deliverable = x == e && j < INSTRUMENTS.len() && INSTRUMENTS[j].0 == e;
    match &out {
        Ok(event) => {
            assert!(deliverable, "C04: a request for another exchange's instrument was translated");
            assert!(event.key.exchange == EXCHANGES[e], "C04: request addressed to the wrong exchange");
            assert!(*event.key.instrument == instrument_name(INSTRUMENTS[j].1), "C04: request addressed to the wrong instrument name");
            assert!(event.key.cid == request.key.cid && event.key.strategy == request.key.strategy);
        }
        Err(_) => assert!(!deliverable, "C04: a request for this exchange's instrument could not be translated"),
    }
    kani::cover!(deliverable, "deliverable");
    kani::cover!(!deliverable && x == e, "foreign instrument");
    core::mem::forget(out);
    core::mem::forget((indexer, request));
}
proof! { #[kani::unwind(26)] fn c04_q_outbound_exchange0() { outbound(0) } }
proof! { #[kani::unwind(26)] fn c04_q_outbound_exchange1() { outbound(1) } }

// inbound: a balance named by exchange asset name lands on that exchange's asset index
fn inbound_balance(e: usize) {
    let indexer = AccountEventIndexer::new(std::sync::Arc::new(execution_map(e)));
    let k = any_usize_lt(4);
    let balance = AssetBalance { asset: asset_name(ASSET_NAMES[k]), balance: Balance { total: Decimal::ONE, free: Decimal::ONE }, time_exchange: time_at(1) };
    let mut want = None;
    let mut i = 0;
    while i < ASSETS.len() {
        if ASSETS[i].0 == e && ASSETS[i].1 == ASSET_NAMES[k] { want = Some(AssetIndex(i)); }
        i += 1;
    }
    let out = indexer.asset_balance(balance);
    assert!(out.as_ref().ok().map(|b| b.asset) == want, "C04: inbound balance applied to the wrong asset index");
    kani::cover!(want.is_some(), "known");
    kani::cover!(want.is_none(), "unknown");
    core::mem::forget(out);
    core::mem::forget(indexer);
}
proof! { #[kani::unwind(26)] fn c04_q_inbound_balance_exchange1() { inbound_balance(1) } }
proof! { #[kani::unwind(26)] fn c04_t_inbound_balance_exchange0() { inbound_balance(0) } }

// inbound: a cancel response (order key named by exchange id + exchange instrument name) lands on this link's exchange index and
// on that exchange's instrument index, and a response naming another exchange is refused even if the instrument name is known here
fn inbound_cancel_response(e: usize) {
    use barter_execution::order::{id::OrderId, state::Cancelled};
    let indexer = AccountEventIndexer::new(std::sync::Arc::new(execution_map(e)));
    let k = any_usize_lt(4);
    let x = any_usize_lt(3);
    let exchange = if x == 0 { ExchangeId::BinanceSpot } else if x == 1 { ExchangeId::Kraken } else { ExchangeId::Okx };
    let response = OrderEvent {
        key: OrderKey { exchange, instrument: instrument_name(INSTRUMENT_NAMES[k]), strategy: StrategyId(SmolStr::new_inline("s")), cid: ClientOrderId(SmolStr::new_inline("c")) },
        state: Ok(Cancelled { id: OrderId(SmolStr::new_inline("o")), time_exchange: time_at(1) }),
    };
    let mut want = None;
    let mut i = 0;
    while i < INSTRUMENTS.len() {
        if x == e && INSTRUMENTS[i].0 == e && INSTRUMENTS[i].1 == INSTRUMENT_NAMES[k] { want = Some(InstrumentIndex(i)); }
        i += 1;
    }
    let out = indexer.order_response_cancel(response);
    match &out {
        Ok(event) => {
            assert!(want.is_some(), "C04: a cancel response naming another exchange or an unknown instrument was translated");
            assert!(event.key.exchange == ExchangeIndex(e), "C04: cancel response applied to the wrong exchange index");
            assert!(Some(event.key.instrument) == want, "C04: cancel response applied to the wrong instrument index");
            assert!(event.state.is_ok(), "C04: cancel response outcome changed by translation");
        }
        Err(_) => assert!(want.is_none(), "C04: a cancel response for this exchange's instrument could not be translated"),
    }
    kani::cover!(want.is_some(), "own exchange, known instrument");
    kani::cover!(x != e && ((e == 0 && k == 0) || (e == 1 && (k == 1 || k == 2))), "foreign exchange id with an instrument name known on this link");
    core::mem::forget(out);
    core::mem::forget(indexer);
}
proof! { #[kani::unwind(26)] fn c04_q_inbound_cancel_response_exchange1() { inbound_cancel_response(1) } }
proof! { #[kani::unwind(26)] fn c04_t_inbound_cancel_response_exchange0() { inbound_cancel_response(0) } }

proof! {
    #[kani::unwind(26)]
    fn c04_twin_must_fail() {
        let map = execution_map(1);
        let _ = map.find_asset_index(&asset_name("eth"));
        core::mem::forget(map);
        assert!(false, "twin");
    }
}
