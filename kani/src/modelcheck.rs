//! Supporting validation of the exact-rational Decimal model (not a deciding step of any property): natively, for every
//! pair of small rationals, the model operation applied to the model representations denotes the same number as the real
//! `rust_decimal` operation applied to the real values (exactly for + - * and comparison, within 1e-24 for division).
//! Run with `/verif/check --modelcheck`.
use crate::env::decimal as dm;
use rust_decimal::Decimal;

fn real(n: i64, d: u64) -> Decimal {
    Decimal::from(n) / Decimal::from(d)
}
/// The number a model representation denotes, computed with the real library.
fn denote(x: &Decimal) -> Decimal {
    Decimal::from(dm::num(x)) / Decimal::from(dm::den(x))
}
fn close(a: Decimal, b: Decimal) -> bool {
    (a - b).abs() <= Decimal::new(1, 24)
}

#[test]
fn native_modelcheck_decimal() {
    let mut pairs = 0u64;
    for n1 in -9i64..=9 {
        for d1 in 1u64..=4 {
            for n2 in -9i64..=9 {
                for d2 in 1u64..=4 {
                    let (a, b) = (dm::mk(n1, d1), dm::mk(n2, d2));
                    let (ra, rb) = (real(n1, d1), real(n2, d2));
                    assert!(close(denote(&dm::add(&a, &b)), ra + rb), "add {n1}/{d1} {n2}/{d2}");
                    assert!(close(denote(&dm::sub(&a, &b)), ra - rb), "sub {n1}/{d1} {n2}/{d2}");
                    assert!(close(denote(&dm::mul(&a, &b)), ra * rb), "mul {n1}/{d1} {n2}/{d2}");
                    if n2 != 0 {
                        assert!(close(denote(&dm::div(&a, &b)), ra / rb), "div {n1}/{d1} {n2}/{d2}");
                        assert!(dm::checked_div(a, b).map(|x| close(denote(&x), ra / rb)) == Some(true));
                    } else {
                        assert!(dm::checked_div(a, b).is_none());
                    }
                    // exact comparison on the exact values n1*d2 ? n2*d1
                    let exact = (n1 * d2 as i64).cmp(&(n2 * d1 as i64));
                    assert!(dm::cmp(&a, &b) == exact, "cmp {n1}/{d1} {n2}/{d2}");
                    // the untouched real methods keep their meaning on model representations
                    assert!(a.is_zero() == (n1 == 0) && a.is_sign_negative() == (n1 < 0), "zero / sign {n1}/{d1}");
                    assert!(close(denote(&a.abs()), ra.abs()) && close(denote(&(-a)), -ra), "abs / neg {n1}/{d1}");
                    pairs += 1;
                }
            }
        }
    }
    println!("NATIVE-MODELCHECK ok pairs={pairs}");
}

/// Supporting validation of the container stand-in (only compiled when the replay build is made with the guard ON):
/// on pseudo-random operation sequences over a small key space the inline `VecMap` agrees with `indexmap::IndexMap`
/// (lookups, insert / replace results, removal results, length, positional access while no removal has happened) and with
/// `std::collections::HashMap` as a set of entries; `VecSet` agrees with `indexmap::IndexSet`.
#[cfg(barter_rs_barter_rs_verif)]
#[test]
fn native_modelcheck_containers() {
    use barter_integration::collection::verif::{CAP, Entry, VecMap, VecSet};
    use indexmap::{IndexMap, IndexSet};
    use std::collections::HashMap;
    let mut state = 0x9E37_79B9_7F4A_7C15u64;
    let mut next = move || {
        state ^= state << 13;
        state ^= state >> 7;
        state ^= state << 17;
        state
    };
    let mut sequences = 0u64;
    for _ in 0..20_000 {
        let mut v: VecMap<u8, u32> = VecMap::default();
        let mut i: IndexMap<u8, u32> = IndexMap::new();
        let mut h: HashMap<u8, u32> = HashMap::new();
        let (mut vs, mut is): (VecSet<u8>, IndexSet<u8>) = (VecSet::default(), IndexSet::new());
        let mut removed = false;
        for _ in 0..12 {
            let (op, k, val) = (next() % 6, (next() % 6) as u8, (next() % 100) as u32);
            match op {
                0 | 1 => {
                    if v.len() == CAP && !v.contains_key(&k) { continue; } // capacity is a stated bound of the stand-in
                    assert_eq!(v.insert(k, val), i.insert(k, val));
                    h.insert(k, val);
                    if vs.len() < CAP || vs.contains(&k) { assert_eq!(vs.insert(k), is.insert(k)); }
                }
                2 => {
                    let r = v.remove(&k);
                    assert_eq!(r, i.shift_remove(&k));
                    assert_eq!(r, h.remove(&k));
                    removed |= r.is_some();
                }
                3 => {
                    assert_eq!(v.get(&k), i.get(&k));
                    assert_eq!(v.get(&k), h.get(&k));
                    assert_eq!(v.get_index_of(&k), i.get_index_of(&k));
                    assert_eq!(vs.contains(&k), is.contains(&k));
                    assert_eq!(vs.get_index_of(&k), is.get_index_of(&k));
                }
                4 => {
                    if v.len() == CAP && !v.contains_key(&k) { continue; }
                    match v.entry(k) {
                        Entry::Occupied(mut e) => { *e.get_mut() += 1; }
                        Entry::Vacant(e) => { e.insert(val); }
                    }
                    *i.entry(k).and_modify(|x| *x += 1).or_insert(val) += 0;
                    h.entry(k).and_modify(|x| *x += 1).or_insert(val);
                }
                _ => {
                    if let Some(x) = v.get_mut(&k) { *x = val; }
                    if let Some(x) = i.get_mut(&k) { *x = val; }
                    if let Some(x) = h.get_mut(&k) { *x = val; }
                }
            }
            assert_eq!(v.len(), i.len());
            assert_eq!(v.len(), h.len());
            // insertion order and positional access agree with IndexMap (shift_remove keeps order, as the stand-in does)
            assert!(v.iter().map(|(k, x)| (*k, *x)).eq(i.iter().map(|(k, x)| (*k, *x))));
            for p in 0..CAP + 1 {
                assert_eq!(v.get_index(p).map(|(k, x)| (*k, *x)), i.get_index(p).map(|(k, x)| (*k, *x)));
            }
            let _ = removed;
        }
        sequences += 1;
    }
    println!("NATIVE-MODELCHECK-CONTAINERS ok sequences={sequences}");
}
