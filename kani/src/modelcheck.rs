//! Supporting validation of the exact-rational Decimal model (not a deciding step of any property): natively, for every
//! pair of small rationals, the model operation applied to the model representations denotes the same number as the real
//! `rust_decimal` operation applied to the real values (exactly for + - * and comparison, within 1e-24 for division).
//! Run with `/verif/check --modelcheck`.
use crate::env::decimal as dm;
use rust_decimal::Decimal;

fn real(n: i64, d: u64) -> Decimal {
    Decimal::from(n) / Decimal::from(d)
}
/// The number a model representation denotes, computed with the real library.
fn denote(x: &Decimal) -> Decimal {
    Decimal::from(dm::num(x)) / Decimal::from(dm::den(x))
}
fn close(a: Decimal, b: Decimal) -> bool {
    (a - b).abs() <= Decimal::new(1, 24)
}

#[test]
fn native_modelcheck_decimal() {
    let mut pairs = 0u64;
    for n1 in -9i64..=9 {
        for d1 in 1u64..=4 {
            for n2 in -9i64..=9 {
                for d2 in 1u64..=4 {
                    let (a, b) = (dm::mk(n1, d1), dm::mk(n2, d2));
                    let (ra, rb) = (real(n1, d1), real(n2, d2));
                    assert!(close(denote(&dm::add(&a, &b)), ra + rb), "add {n1}/{d1} {n2}/{d2}");
                    assert!(close(denote(&dm::sub(&a, &b)), ra - rb), "sub {n1}/{d1} {n2}/{d2}");
                    assert!(close(denote(&dm::mul(&a, &b)), ra * rb), "mul {n1}/{d1} {n2}/{d2}");
                    if n2 != 0 {
                        assert!(close(denote(&dm::div(&a, &b)), ra / rb), "div {n1}/{d1} {n2}/{d2}");
                        assert!(dm::checked_div(a, b).map(|x| close(denote(&x), ra / rb)) == Some(true));
                    } else {
                        assert!(dm::checked_div(a, b).is_none());
                    }
                    // exact comparison on the exact values n1*d2 ? n2*d1
                    let exact = (n1 * d2 as i64).cmp(&(n2 * d1 as i64));
                    assert!(dm::cmp(&a, &b) == exact, "cmp {n1}/{d1} {n2}/{d2}");
                    // the untouched real methods keep their meaning on model representations
                    assert!(a.is_zero() == (n1 == 0) && a.is_sign_negative() == (n1 < 0), "zero / sign {n1}/{d1}");
                    assert!(close(denote(&a.abs()), ra.abs()) && close(denote(&(-a)), -ra), "abs / neg {n1}/{d1}");
                    pairs += 1;
                }
            }
        }
    }
    println!("NATIVE-MODELCHECK ok pairs={pairs}");
}
