//! C02 — position size and realised PnL conserve the cash flows of the fills.
//!
//! One inductive step on the real `PositionManager::update_from_trade` from an ARBITRARY open position
//! (or none) with an arbitrary fill. Ghost quantities: signed net quantity, and the wealth function
//! `W = Σ realised(closed) + realised(open) − net·p̄`; the step asserts `ΔW == cash flow of the fill`
//! exactly (rational model), which telescopes to the property's identity over any fill sequence.
use crate::{gens::*, proof};
use barter::engine::state::position::{Position, PositionExited, PositionManager};
use barter_execution::{
    order::id::{OrderId, StrategyId},
    trade::{AssetFees, Trade, TradeId},
};
use barter_instrument::{Side, asset::QuoteAsset, instrument::InstrumentIndex};
use chrono::{DateTime, Utc};
use rust_decimal::Decimal;

type Pos = Position<QuoteAsset, InstrumentIndex>;
type Exit = PositionExited<QuoteAsset, InstrumentIndex>;
type Fill = Trade<QuoteAsset, InstrumentIndex>;

pub fn fill(side: Side, price: Decimal, quantity: Decimal, fee: Decimal, t: DateTime<Utc>, instrument: usize) -> Fill {
    Trade {
        id: TradeId::new("t2"),
        order_id: OrderId::new("o2"),
        instrument: InstrumentIndex(instrument),
        strategy: StrategyId::new("s"),
        time_exchange: t,
        side,
        price,
        quantity,
        fees: AssetFees::quote_fees(fee),
    }
}

/// Arbitrary open position within the bound (`bits`-bit integers; entry price rational with denominator <= `dmax`).
pub fn any_position(side: Side, bits: u32, dmax: u8) -> Pos {
    let quantity_abs = dec_pos(bits);
    let quantity_abs_max = dec_pos(bits);
    assume(quantity_abs_max >= quantity_abs);
    let price_entry_average = dec_q(bits, dmax);
    assume(price_entry_average > Decimal::ZERO);
    let mut trades = Vec::with_capacity(3);
    trades.push(TradeId::new("t1"));
    Position {
        instrument: InstrumentIndex(0),
        side,
        price_entry_average,
        quantity_abs,
        quantity_abs_max,
        pnl_unrealised: dec_i(bits),
        pnl_realised: dec_i(bits),
        fees_enter: AssetFees::quote_fees(dec_u(bits)),
        fees_exit: AssetFees::quote_fees(dec_u(bits)),
        time_enter: time_at(1),
        time_exchange_update: time_at(2),
        trades,
    }
}

fn signed(side: Side, q: Decimal) -> Decimal {
    match side {
        Side::Buy => q,
        Side::Sell => -q,
    }
}

/// The documented unrealised-PnL estimate (price move on the open quantity minus pro-rata estimated exit fees).
pub fn estimate(p: &Pos, price: Decimal) -> Decimal {
    let move_ = match p.side {
        Side::Buy => p.quantity_abs * (price - p.price_entry_average),
        Side::Sell => p.quantity_abs * (p.price_entry_average - price),
    };
    move_ - p.fees_enter.fees * p.quantity_abs / p.quantity_abs_max
}

#[derive(Clone)]
struct Pre {
    side: Side,
    p_avg: Decimal,
    q: Decimal,
    q_max: Decimal,
    realised: Decimal,
    fees_enter: Decimal,
    fees_exit: Decimal,
}

fn check_step(pre: Option<Pre>, trade: &Fill, pm: &PositionManager<InstrumentIndex>, closed: &Option<Exit>) {
    let tq = trade.quantity;
    let cash = match trade.side {
        Side::Sell => trade.price * tq - trade.fees.fees,
        Side::Buy => -(trade.price * tq) - trade.fees.fees,
    };
    let net0 = pre.as_ref().map_or(Decimal::ZERO, |p| signed(p.side, p.q));
    let net1 = net0 + signed(trade.side, tq);

    // side and size are the sign and magnitude of the net signed quantity
    match &pm.current {
        Some(cur) => {
            assert!(!net1.is_zero(), "C02: flat net quantity but a position is open");
            assert!(cur.side == if net1 > Decimal::ZERO { Side::Buy } else { Side::Sell }, "C02: side != sign of net quantity");
            assert!(deq(cur.quantity_abs, net1.abs()), "C02: size != magnitude of net quantity");
            assert!(cur.quantity_abs_max >= cur.quantity_abs, "C02: max quantity below current quantity");
            assert!(cur.instrument == trade.instrument);
            assert!(cur.time_exchange_update == trade.time_exchange);
        }
        None => assert!(net1.is_zero(), "C02: non-zero net quantity but no open position"),
    }
    // a closed record is emitted exactly when the net quantity reaches or crosses zero
    let crosses = !net0.is_zero() && (net1.is_zero() || (net0 > Decimal::ZERO) != (net1 > Decimal::ZERO));
    assert!(closed.is_some() == crosses, "C02: position-closed record iff net quantity reaches or crosses zero");

    // wealth function before / after
    let w0 = pre.as_ref().map_or(Decimal::ZERO, |p| p.realised - net0 * p.p_avg);
    let open1 = pm.current.as_ref().map_or(Decimal::ZERO, |c| c.pnl_realised - net1 * c.price_entry_average);
    let closed1 = closed.as_ref().map_or(Decimal::ZERO, |c| c.pnl_realised);
    assert!(deq(open1 + closed1 - w0, cash), "C02: realised PnL does not conserve the cash flow of the fill");

    // fees: entry + exit fees over closed and open positions grow by exactly the fill's fee
    let f0 = pre.as_ref().map_or(Decimal::ZERO, |p| p.fees_enter + p.fees_exit);
    let f1 = pm.current.as_ref().map_or(Decimal::ZERO, |c| c.fees_enter.fees + c.fees_exit.fees)
        + closed.as_ref().map_or(Decimal::ZERO, |c| c.fees_enter.fees + c.fees_exit.fees);
    assert!(deq(f1 - f0, trade.fees.fees), "C02: entry + exit fees do not add up to the fees of the fills");

    // the fill id is recorded against the position(s) it affected
    if let Some(c) = closed {
        assert!(c.trades.len() == 2 && c.trades[1] == trade.id && c.trades[0] == TradeId::new("t1"), "C02: fill id missing on the closed position");
        let p = pre.as_ref().unwrap();
        assert!(c.side == p.side && c.price_entry_average == p.p_avg && c.quantity_abs_max == p.q_max);
        assert!(c.time_exit == trade.time_exchange && c.time_enter == time_at(1));
        assert!(c.instrument == trade.instrument);
    }
    if let Some(cur) = &pm.current {
        if pre.is_none() || closed.is_some() {
            // freshly opened (first fill, or remainder of a flip)
            assert!(cur.trades.len() == 1 && cur.trades[0] == trade.id, "C02: fill id missing on the opened position");
            assert!(cur.price_entry_average == trade.price && cur.time_enter == trade.time_exchange);
            assert!(deq(cur.quantity_abs_max, cur.quantity_abs));
            assert!(cur.fees_exit.fees.is_zero());
            if closed.is_some() {
                // pro-rata share of the fee
                assert!(deq(cur.fees_enter.fees * tq, trade.fees.fees * cur.quantity_abs), "C02: flip remainder does not carry a pro-rata fee");
            }
        } else {
            let p = pre.as_ref().unwrap();
            assert!(cur.trades.len() == 2 && cur.trades[1] == trade.id && cur.trades[0] == TradeId::new("t1"), "C02: fill id missing on the open position");
            assert!(cur.time_enter == time_at(1));
            if p.side == trade.side {
                assert!(deq(cur.quantity_abs_max, if cur.quantity_abs > p.q_max { cur.quantity_abs } else { p.q_max }));
                assert!(deq(cur.price_entry_average * cur.quantity_abs, p.p_avg * p.q + trade.price * tq), "C02: entry price is not the volume-weighted average");
            } else {
                assert!(cur.price_entry_average == p.p_avg && cur.quantity_abs_max == p.q_max);
            }
        }
    }
}

/// `arm`: 0 = any, 1 = fill smaller than the position (reduce), 2 = equal (exact close), 3 = larger (flip).
/// The arms partition the input space; they only split one query into three smaller ones.
fn run_step(pre_side: Option<Side>, fill_side: Side, arm: u8, bits: u32, dmax: u8) {
    let pre_pos = pre_side.map(|s| any_position(s, bits, dmax));
    let pre = pre_pos.as_ref().map(|p| Pre {
        side: p.side,
        p_avg: p.price_entry_average,
        q: p.quantity_abs,
        q_max: p.quantity_abs_max,
        realised: p.pnl_realised,
        fees_enter: p.fees_enter.fees,
        fees_exit: p.fees_exit.fees,
    });
    let trade = fill(fill_side, dec_pos(bits), dec_pos(bits), dec_u(bits), time_at(3), 0);
    if let Some(p) = &pre {
        match arm {
            1 => assume(trade.quantity < p.q),
            2 => assume(trade.quantity == p.q),
            3 => assume(trade.quantity > p.q),
            _ => {}
        }
    }
    let mut pm = PositionManager { current: pre_pos };
    let closed = pm.update_from_trade(&trade);
    check_step(pre, &trade, &pm, &closed);
    let opposite = pre_side.is_some() && pre_side != Some(fill_side);
    let reached = match (opposite, arm) {
        (true, 1) => closed.is_none() && pm.current.is_some(),
        (true, 2) => closed.is_some() && pm.current.is_none(),
        (true, 3) => closed.is_some() && pm.current.is_some(),
        _ => closed.is_none() && pm.current.is_some(),
    };
    kani::cover!(reached, "the arm of this cell (open / increase / reduce / exact close / flip) is reached");
    core::mem::forget((pm, closed, trade));
}

macro_rules! step {
    ($name:ident, $pre:expr, $fill:expr, $arm:expr, $bits:expr, $dmax:expr) => {
        proof! {
            #[kani::unwind(26)]
            fn $name() { run_step($pre, $fill, $arm, $bits, $dmax) }
        }
    };
}

// quick: 2-bit integers (prices/quantities 1..3, fees 0..3, realised -3..3), integer entry price
step!(c02_q_none_buy, None, Side::Buy, 0, 2, 1);
step!(c02_q_none_sell, None, Side::Sell, 0, 2, 1);
step!(c02_q_long_buy, Some(Side::Buy), Side::Buy, 0, 2, 1);
step!(c02_q_short_sell, Some(Side::Sell), Side::Sell, 0, 2, 1);
step!(c02_q_long_sell_reduce, Some(Side::Buy), Side::Sell, 1, 2, 1);
step!(c02_q_long_sell_close, Some(Side::Buy), Side::Sell, 2, 2, 1);
step!(c02_q_long_sell_flip, Some(Side::Buy), Side::Sell, 3, 2, 1);
step!(c02_q_short_buy_reduce, Some(Side::Sell), Side::Buy, 1, 2, 1);
step!(c02_q_short_buy_close, Some(Side::Sell), Side::Buy, 2, 2, 1);
step!(c02_q_short_buy_flip, Some(Side::Sell), Side::Buy, 3, 2, 1);

// thorough: 3-bit integers, entry price rational with denominator <= 2
step!(c02_t_none_buy, None, Side::Buy, 0, 3, 2);
step!(c02_t_none_sell, None, Side::Sell, 0, 3, 2);
step!(c02_t_long_buy, Some(Side::Buy), Side::Buy, 0, 3, 2);
step!(c02_t_short_sell, Some(Side::Sell), Side::Sell, 0, 3, 2);
step!(c02_t_long_sell_reduce, Some(Side::Buy), Side::Sell, 1, 3, 2);
step!(c02_t_long_sell_close, Some(Side::Buy), Side::Sell, 2, 3, 2);
step!(c02_t_long_sell_flip, Some(Side::Buy), Side::Sell, 3, 3, 2);
step!(c02_t_short_buy_reduce, Some(Side::Sell), Side::Buy, 1, 3, 2);
step!(c02_t_short_buy_close, Some(Side::Sell), Side::Buy, 2, 3, 2);
step!(c02_t_short_buy_flip, Some(Side::Sell), Side::Buy, 3, 3, 2);

// thorough: a direct two-fill history from flat - the telescoped identity of the property, checked end to end
// (sum of realised PnL over closed records + open realised PnL == sells - buys - fees + open quantity at average entry)
proof! {
    #[kani::unwind(26)]
    fn c02_t_two_fills_from_flat() {
        let s1 = if any_bool() { Side::Buy } else { Side::Sell };
        let s2 = if any_bool() { Side::Buy } else { Side::Sell };
        let f1 = fill(s1, dec_pos(2), dec_pos(2), dec_u(2), time_at(1), 0);
        let f2 = fill(s2, dec_pos(2), dec_pos(2), dec_u(2), time_at(2), 0);
        let mut pm: PositionManager<InstrumentIndex> = PositionManager { current: None };
        let c1 = pm.update_from_trade(&f1);
        let c2 = pm.update_from_trade(&f2);
        assert!(c1.is_none(), "C02: first fill from flat closed a position");
        let cash = |f: &Fill| match f.side { Side::Sell => f.price * f.quantity - f.fees.fees, Side::Buy => -(f.price * f.quantity) - f.fees.fees };
        let net = signed(s1, f1.quantity) + signed(s2, f2.quantity);
        let closed_sum = c2.as_ref().map_or(Decimal::ZERO, |c| c.pnl_realised);
        let (open_realised, open_value) = pm.current.as_ref().map_or((Decimal::ZERO, Decimal::ZERO), |p| (p.pnl_realised, net * p.price_entry_average));
        assert!(deq(closed_sum + open_realised, cash(&f1) + cash(&f2) + open_value), "C02: realised PnL over the history does not conserve the cash flows");
        match &pm.current {
            Some(p) => assert!(!net.is_zero() && deq(p.quantity_abs, net.abs()) && (p.side == Side::Buy) == (net > Decimal::ZERO), "C02: open position is not the net signed quantity"),
            None => assert!(net.is_zero(), "C02: flat although the net quantity is not zero"),
        }
        let fees_total = pm.current.as_ref().map_or(Decimal::ZERO, |p| p.fees_enter.fees + p.fees_exit.fees) + c2.as_ref().map_or(Decimal::ZERO, |c| c.fees_enter.fees + c.fees_exit.fees);
        assert!(deq(fees_total, f1.fees.fees + f2.fees.fees), "C02: entry + exit fees do not add up to the fees of the fills");
        kani::cover!(c2.is_some() && pm.current.is_some(), "flip on the second fill");
        kani::cover!(c2.is_some() && pm.current.is_none(), "exact close on the second fill");
        kani::cover!(s1 == s2, "increase");
        core::mem::forget((pm, c1, c2, f1, f2));
    }
}

// thorough: three fills from flat, the telescoped identity over closed records and the open position
fn fills_from_flat(n: u8) {
        let mut pm: PositionManager<InstrumentIndex> = PositionManager { current: None };
        let mut cash_total = Decimal::ZERO;
        let mut fees_total = Decimal::ZERO;
        let mut net = Decimal::ZERO;
        let mut closed_realised = Decimal::ZERO;
        let mut closed_fees = Decimal::ZERO;
        let mut closed_count = 0u8;
        let mut k = 0u8;
        while k < n {
            let side = if any_bool() { Side::Buy } else { Side::Sell };
            let f = fill(side, dec_pos(2), dec_pos(2), dec_u(1), time_at(k + 1), 0);
            cash_total = cash_total + match side { Side::Sell => f.price * f.quantity - f.fees.fees, Side::Buy => -(f.price * f.quantity) - f.fees.fees };
            fees_total = fees_total + f.fees.fees;
            net = net + signed(side, f.quantity);
            if let Some(c) = pm.update_from_trade(&f) {
                closed_realised = closed_realised + c.pnl_realised;
                closed_fees = closed_fees + c.fees_enter.fees + c.fees_exit.fees;
                closed_count += 1;
                core::mem::forget(c);
            }
            core::mem::forget(f);
            k += 1;
        }
        let (open_realised, open_value, open_fees) = pm.current.as_ref().map_or((Decimal::ZERO, Decimal::ZERO, Decimal::ZERO), |p| (p.pnl_realised, net * p.price_entry_average, p.fees_enter.fees + p.fees_exit.fees));
        assert!(deq(closed_realised + open_realised, cash_total + open_value), "C02: realised PnL over the history does not conserve the cash flows");
        assert!(deq(closed_fees + open_fees, fees_total), "C02: entry + exit fees do not add up to the fees of the fills");
        match &pm.current {
            Some(p) => assert!(!net.is_zero() && deq(p.quantity_abs, net.abs()) && (p.side == Side::Buy) == (net > Decimal::ZERO), "C02: open position is not the net signed quantity"),
            None => assert!(net.is_zero(), "C02: flat although the net quantity is not zero"),
        }
        kani::cover!(closed_count == n - 1, "every fill after the first closed a position (repeated flips)");
        kani::cover!(closed_count == 0 && pm.current.is_some(), "no close");
        core::mem::forget(pm);
    }
proof! { #[kani::unwind(26)] fn c02_t_three_fills_from_flat() { fills_from_flat(3) } }
proof! { #[kani::unwind(26)] fn c02_t_four_fills_from_flat() { fills_from_flat(4) } }

// a fill for another instrument must leave the position untouched
proof! {
    #[kani::unwind(26)]
    fn c02_q_other_instrument() {
        let side = if any_bool() { Side::Buy } else { Side::Sell };
        let pre_pos = any_position(side, 2, 1);
        let snapshot = pre_pos.clone();
        let trade = fill(if any_bool() { Side::Buy } else { Side::Sell }, dec_pos(2), dec_pos(2), dec_u(2), time_at(3), 1);
        let mut pm = PositionManager { current: Some(pre_pos) };
        let closed = pm.update_from_trade(&trade);
        assert!(closed.is_none(), "C02: fill of another instrument closed the position");
        assert!(pm.current.as_ref() == Some(&snapshot), "C02: fill of another instrument changed the position");
        kani::cover!(true, "reached");
        core::mem::forget((pm, closed, trade, snapshot));
    }
}

proof! {
    #[kani::unwind(26)]
    fn c02_twin_must_fail() {
        let trade = fill(Side::Buy, dec_pos(2), dec_pos(2), dec_u(2), time_at(3), 0);
        let mut pm = PositionManager { current: None };
        let closed = pm.update_from_trade(&trade);
        core::mem::forget((pm, closed, trade));
        assert!(false, "twin");
    }
}
