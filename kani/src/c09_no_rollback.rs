//! C09 — late or duplicate exchange messages never roll engine state back.
//!
//! One inductive step with the ghost "greatest delivered timestamp and a value delivered with it": from an
//! arbitrary held `(t, v)` (or nothing) any message `(t', v')` leaves held time = max(t, t') and a held value
//! that was delivered with that time. Covers every permutation with repetition of any finite message set.
//! (The order arm is C01's monotonicity assertion.)
use crate::{gens::*, proof};
use barter::{
    Timed,
    engine::{
        Processor,
        state::{asset::AssetState, instrument::data::DefaultInstrumentMarketData},
    },
    statistic::summary::asset::TearSheetAssetGenerator,
};
use barter_data::{
    books::Level,
    event::{DataKind, MarketEvent},
    subscription::{book::OrderBookL1, trade::PublicTrade},
};
use barter_execution::balance::{AssetBalance, Balance};
use barter_instrument::{
    Side,
    asset::{Asset, AssetIndex, name::{AssetNameExchange, AssetNameInternal}},
    exchange::ExchangeId,
    instrument::InstrumentIndex,
};
use barter_integration::snapshot::Snapshot;
use rust_decimal::Decimal;
use smol_str::SmolStr;

fn any_balance() -> Balance {
    let total = dec_u(3);
    let free = dec_u(3);
    assume(free <= total);
    Balance { total, free }
}

/// `tf` maps the symbolic tick 0..3 to an exchange timestamp (whole seconds, or four instants inside ONE millisecond).
fn balance_step(tf: fn(u8) -> chrono::DateTime<chrono::Utc>) {
        let held: Option<(u8, Balance)> = if any_bool() { let s = any_u8_lt(4); Some((s, any_balance())) } else { None };
        let first = held.map(|(s, b)| Timed::new(b, tf(s)));
        let mut state = AssetState {
            asset: Asset { name_internal: AssetNameInternal::new(SmolStr::new_inline("usdt")), name_exchange: AssetNameExchange::new(SmolStr::new_inline("USDT")) },
            statistics: match &first { Some(t) => TearSheetAssetGenerator::init(t), None => TearSheetAssetGenerator::default() },
            balance: first,
        };
        let s1 = any_u8_lt(4);
        let message = AssetBalance { asset: AssetIndex(0), balance: any_balance(), time_exchange: tf(s1) };
        state.update_from_balance(Snapshot(&message));
        let now = state.balance.as_ref().expect("C09: balance lost");
        match held {
            None => assert!(now.time == tf(s1) && now.value == message.balance, "C09: first balance not held"),
            Some((s0, b0)) => {
                let newest = if s1 >= s0 { s1 } else { s0 };
                assert!(now.time == tf(newest), "C09: held balance does not carry the greatest delivered exchange timestamp");
                let delivered_with_it = (s1 == newest && now.value == message.balance) || (s0 == newest && now.value == b0);
                assert!(delivered_with_it, "C09: held balance was not delivered with the held timestamp");
                if s1 < s0 {
                    assert!(now.value == b0, "C09: an older balance overwrote newer state");
                }
            }
        }
        kani::cover!(held.is_some() && s1 < held.unwrap().0, "stale balance");
        kani::cover!(held.is_some() && s1 == held.unwrap().0, "equal timestamp");
        kani::cover!(held.is_some() && s1 > held.unwrap().0, "newer balance");
        core::mem::forget(state);
    }
fn sub_millisecond(tick: u8) -> chrono::DateTime<chrono::Utc> {
    time_at(1) + chrono::TimeDelta::microseconds(250 * tick as i64)
}
proof! { #[kani::unwind(26)] fn c09_q_balance_step() { balance_step(time_at) } }
// timestamps that differ by less than a millisecond are still different timestamps
proof! { #[kani::unwind(26)] fn c09_q_balance_step_sub_millisecond() { balance_step(sub_millisecond) } }

fn any_level() -> Option<Level> {
    if any_bool() { Some(Level { price: dec_pos(3), amount: dec_pos(2) }) } else { None }
}

proof! {
    #[kani::unwind(26)]
    fn c09_q_last_trade_step() {
        let s0 = any_u8_lt(4);
        let p0 = any_u8_in(1, 7);
        let has = any_bool();
        let mut data = DefaultInstrumentMarketData {
            l1: OrderBookL1::default(),
            last_traded_price: if has { Some(Timed::new(Decimal::from(p0), time_at(s0))) } else { None },
        };
        let (s1, p1): (u8, u8) = (any_u8_lt(4), any_u8_in(1, 7));
        let event = MarketEvent {
            time_exchange: time_at(s1), time_received: time_at(0), exchange: ExchangeId::BinanceSpot, instrument: InstrumentIndex(0),
            kind: DataKind::Trade(PublicTrade { id: String::new(), price: p1 as f64, amount: 1.0, side: Side::Buy }),
        };
        data.process(&event);
        let now = data.last_traded_price.as_ref().expect("C09: last traded price lost");
        if !has {
            assert!(now.time == time_at(s1) && now.value == Decimal::from(p1), "C09: first trade not held");
        } else {
            let newest = if s1 >= s0 { s1 } else { s0 };
            assert!(now.time == time_at(newest), "C09: last traded price does not carry the greatest delivered exchange timestamp");
            assert!((s1 == newest && now.value == Decimal::from(p1)) || (s0 == newest && now.value == Decimal::from(p0)), "C09: held price was not delivered with the held timestamp");
            if s1 < s0 { assert!(now.value == Decimal::from(p0), "C09: an older trade overwrote the newer last traded price"); }
        }
        assert!(data.l1 == OrderBookL1::default(), "C09: a trade changed the top of book");
        kani::cover!(has && s1 < s0, "stale trade");
        kani::cover!(has && s1 == s0 && p1 != p0, "equal timestamp");
        kani::cover!(has && s1 > s0, "newer trade");
        core::mem::forget((data, event));
    }
}

proof! {
    #[kani::unwind(26)]
    fn c09_q_top_of_book_step() {
        let s0 = any_u8_lt(4);
        let l1_0 = OrderBookL1 { last_update_time: time_at(s0), best_bid: any_level(), best_ask: any_level() };
        let last = if any_bool() { Some(Timed::new(dec_pos(3), time(4))) } else { None };
        let mut data = DefaultInstrumentMarketData { l1: l1_0.clone(), last_traded_price: last.clone() };
        let s1 = any_u8_lt(4);
        // connector contract: the L1's own last_update_time equals the event's exchange time
        let l1_1 = OrderBookL1 { last_update_time: time_at(s1), best_bid: any_level(), best_ask: any_level() };
        let event = MarketEvent { time_exchange: time_at(s1), time_received: time_at(0), exchange: ExchangeId::BinanceSpot, instrument: InstrumentIndex(0), kind: DataKind::OrderBookL1(l1_1.clone()) };
        data.process(&event);
        let newest = if s1 >= s0 { s1 } else { s0 };
        assert!(data.l1.last_update_time == time_at(newest), "C09: top of book does not carry the greatest delivered exchange timestamp");
        assert!((s1 == newest && data.l1 == l1_1) || (s0 == newest && data.l1 == l1_0), "C09: held top of book was not delivered with the held timestamp");
        if s1 < s0 { assert!(data.l1 == l1_0, "C09: an older top-of-book update overwrote newer state"); }
        assert!(data.last_traded_price == last, "C09: a top-of-book update changed the last traded price");
        kani::cover!(s1 < s0, "stale");
        kani::cover!(s1 == s0, "equal timestamp");
        kani::cover!(s1 > s0, "newer");
        core::mem::forget((data, event));
    }
}

// engine level (needs the hook): a balance snapshot delivered through EngineState::update_from_account lands on the asset it
// names - and only there - under the same no-roll-back rule; `whole_snapshot` delivers it inside a full account snapshot
fn engine_balance(asset_index: usize, whole_snapshot: bool) {
    use crate::world::*;
    use barter::engine::state::{instrument::data::DefaultInstrumentMarketData, order::Orders, position::PositionManager, trading::TradingState};
    use barter_execution::{AccountEvent, AccountEventKind, AccountSnapshot};
    use barter_instrument::exchange::ExchangeIndex;
    let (s_a, s_b) = (any_u8_lt(4), any_u8_lt(4));
    let (held_a, held_b) = (any_balance(), any_balance());
    let istate = instrument_state(0, instrument(0, "btc_usdt", 0, 1), PositionManager::default(), Orders::default(), DefaultInstrumentMarketData::default());
    let mut state = engine_state(TradingState::Disabled, instrument_states_1(("btc_usdt", istate)));
    state.assets = asset_states_2(
        (asset_key(ExchangeId::BinanceSpot, "btc"), asset_state("btc", Some(Timed::new(held_a, time_at(s_a))))),
        (asset_key(ExchangeId::BinanceSpot, "usdt"), asset_state("usdt", Some(Timed::new(held_b, time_at(s_b))))),
    );
    let s1 = any_u8_lt(4);
    let message = AssetBalance { asset: AssetIndex(asset_index), balance: any_balance(), time_exchange: time_at(s1) };
    let event = if whole_snapshot {
        AccountEvent { exchange: ExchangeIndex(0), kind: AccountEventKind::Snapshot(AccountSnapshot { exchange: ExchangeIndex(0), balances: vec![message.clone()], instruments: vec![] }) }
    } else {
        AccountEvent { exchange: ExchangeIndex(0), kind: AccountEventKind::BalanceSnapshot(Snapshot(message.clone())) }
    };
    let out = state.update_from_account(&event);
    assert!(out.is_none());
    let (named_held, named_s, other_held, other_s) = if asset_index == 0 { (held_a, s_a, held_b, s_b) } else { (held_b, s_b, held_a, s_a) };
    let named = state.assets.asset_index(&AssetIndex(asset_index)).balance.as_ref().expect("C09: balance lost");
    let other = state.assets.asset_index(&AssetIndex(1 - asset_index)).balance.as_ref().expect("C09: balance lost");
    assert!(other.time == time_at(other_s) && other.value == other_held, "C09: a balance message changed another asset");
    let newest = if s1 >= named_s { s1 } else { named_s };
    assert!(named.time == time_at(newest), "C09: held balance does not carry the greatest delivered exchange timestamp");
    assert!((s1 == newest && named.value == message.balance) || (named_s == newest && named.value == named_held), "C09: held balance was not delivered with the held timestamp");
    if s1 < named_s { assert!(named.value == named_held, "C09: an older balance overwrote newer state"); }
    kani::cover!(s1 < named_s, "stale");
    kani::cover!(s1 > named_s, "newer");
    core::mem::forget((state, event, message));
}
proof! { #[kani::unwind(26)] fn c09_q_engine_balance_asset0() { engine_balance(0, false) } }
proof! { #[kani::unwind(26)] fn c09_q_engine_balance_asset1_in_snapshot() { engine_balance(1, true) } }
proof! { #[kani::unwind(26)] fn c09_t_engine_balance_asset1() { engine_balance(1, false) } }
proof! { #[kani::unwind(26)] fn c09_t_engine_balance_asset0_in_snapshot() { engine_balance(0, true) } }

proof! {
    #[kani::unwind(26)]
    fn c09_twin_must_fail() {
        let mut data = DefaultInstrumentMarketData::default();
        let event = MarketEvent { time_exchange: time(4), time_received: time_at(0), exchange: ExchangeId::BinanceSpot, instrument: InstrumentIndex(0), kind: DataKind::OrderBookL1(OrderBookL1::default()) };
        data.process(&event);
        core::mem::forget((data, event));
        assert!(false, "twin");
    }
}
