//! Literal construction of engine states for engine-level harnesses (all fields of the real types are
//! public). Under the hook the insertion-ordered maps are written out literally (inline storage, concrete
//! shape); with the guard off (native replay) the same values are collected into the real containers.
use barter::engine::state::{
    EngineState,
    asset::AssetStates,
    connectivity::{ConnectivityState, ConnectivityStates, Health},
    global::DefaultGlobalData,
    instrument::{InstrumentState, InstrumentStates, data::DefaultInstrumentMarketData},
    order::Orders,
    position::PositionManager,
    trading::TradingState,
};
use barter::statistic::summary::instrument::TearSheetGenerator;
use barter_instrument::{
    Underlying,
    asset::AssetIndex,
    exchange::{ExchangeId, ExchangeIndex},
    instrument::{
        Instrument, InstrumentIndex,
        kind::InstrumentKind,
        name::{InstrumentNameExchange, InstrumentNameInternal},
        quote::InstrumentQuoteAsset,
    },
};
use smol_str::SmolStr;

pub type State = EngineState<DefaultGlobalData, DefaultInstrumentMarketData>;
pub type IState = InstrumentState<DefaultInstrumentMarketData>;

pub fn name_internal(name: &str) -> InstrumentNameInternal {
    InstrumentNameInternal(SmolStr::new_inline(name))
}

pub fn instrument(exchange: usize, name: &str, base: usize, quote: usize) -> Instrument<ExchangeIndex, AssetIndex> {
    Instrument {
        exchange: ExchangeIndex(exchange),
        name_internal: name_internal(name),
        name_exchange: InstrumentNameExchange::new(SmolStr::new_inline(name)),
        underlying: Underlying { base: AssetIndex(base), quote: AssetIndex(quote) },
        quote: InstrumentQuoteAsset::UnderlyingQuote,
        kind: InstrumentKind::Spot,
        spec: None,
    }
}

pub fn instrument_state(
    index: usize,
    instrument: Instrument<ExchangeIndex, AssetIndex>,
    position: PositionManager,
    orders: Orders,
    data: DefaultInstrumentMarketData,
) -> IState {
    InstrumentState {
        key: InstrumentIndex(index),
        instrument,
        tear_sheet: TearSheetGenerator::init(crate::gens::time_at(0)),
        position,
        orders,
        data,
    }
}

#[cfg(barter_rs_barter_rs_verif)]
pub fn instrument_states_1(a: (&str, IState)) -> InstrumentStates<DefaultInstrumentMarketData> {
    use barter_integration::collection::verif::VecMap;
    InstrumentStates(VecMap { len: 1, slots: [Some((name_internal(a.0), a.1)), None, None, None] })
}
#[cfg(not(barter_rs_barter_rs_verif))]
pub fn instrument_states_1(a: (&str, IState)) -> InstrumentStates<DefaultInstrumentMarketData> {
    InstrumentStates([(name_internal(a.0), a.1)].into_iter().collect())
}

#[cfg(barter_rs_barter_rs_verif)]
pub fn instrument_states_2(a: (&str, IState), b: (&str, IState)) -> InstrumentStates<DefaultInstrumentMarketData> {
    use barter_integration::collection::verif::VecMap;
    InstrumentStates(VecMap { len: 2, slots: [Some((name_internal(a.0), a.1)), Some((name_internal(b.0), b.1)), None, None] })
}
#[cfg(not(barter_rs_barter_rs_verif))]
pub fn instrument_states_2(a: (&str, IState), b: (&str, IState)) -> InstrumentStates<DefaultInstrumentMarketData> {
    InstrumentStates([(name_internal(a.0), a.1), (name_internal(b.0), b.1)].into_iter().collect())
}

#[cfg(barter_rs_barter_rs_verif)]
pub fn connectivity_2(global: Health, a: (ExchangeId, ConnectivityState), b: (ExchangeId, ConnectivityState)) -> ConnectivityStates {
    use barter_integration::collection::verif::VecMap;
    ConnectivityStates { global, exchanges: VecMap { len: 2, slots: [Some(a), Some(b), None, None] } }
}
#[cfg(not(barter_rs_barter_rs_verif))]
pub fn connectivity_2(global: Health, a: (ExchangeId, ConnectivityState), b: (ExchangeId, ConnectivityState)) -> ConnectivityStates {
    ConnectivityStates { global, exchanges: [a, b].into_iter().collect() }
}

pub fn healthy() -> ConnectivityState {
    ConnectivityState { market_data: Health::Healthy, account: Health::Healthy }
}

/// Two exchanges (BinanceSpot = index 0, Kraken = index 1), all links healthy, no assets.
pub fn engine_state(trading: TradingState, instruments: InstrumentStates<DefaultInstrumentMarketData>) -> State {
    EngineState {
        trading,
        global: DefaultGlobalData,
        connectivity: connectivity_2(Health::Healthy, (ExchangeId::BinanceSpot, healthy()), (ExchangeId::Kraken, healthy())),
        assets: AssetStates::default(),
        instruments,
    }
}

use barter::engine::state::asset::AssetState;
use barter::statistic::summary::asset::TearSheetAssetGenerator;
use barter_instrument::asset::{Asset, ExchangeAsset, name::{AssetNameExchange, AssetNameInternal}};

pub fn asset_key(exchange: ExchangeId, name: &str) -> ExchangeAsset<AssetNameInternal> {
    ExchangeAsset { exchange, asset: AssetNameInternal::new(SmolStr::new_inline(name)) }
}
pub fn asset_state(name: &str, balance: Option<barter::Timed<barter_execution::balance::Balance>>) -> AssetState {
    AssetState {
        asset: Asset { name_internal: AssetNameInternal::new(SmolStr::new_inline(name)), name_exchange: AssetNameExchange::new(SmolStr::new_inline(name)) },
        statistics: match &balance { Some(b) => TearSheetAssetGenerator::init(b), None => TearSheetAssetGenerator::default() },
        balance,
    }
}
#[cfg(barter_rs_barter_rs_verif)]
pub fn asset_states_2(a: (ExchangeAsset<AssetNameInternal>, AssetState), b: (ExchangeAsset<AssetNameInternal>, AssetState)) -> AssetStates {
    use barter_integration::collection::verif::VecMap;
    AssetStates(VecMap { len: 2, slots: [Some(a), Some(b), None, None] })
}
#[cfg(not(barter_rs_barter_rs_verif))]
pub fn asset_states_2(a: (ExchangeAsset<AssetNameInternal>, AssetState), b: (ExchangeAsset<AssetNameInternal>, AssetState)) -> AssetStates {
    AssetStates([a, b].into_iter().collect())
}
