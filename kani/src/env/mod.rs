pub mod decimal;
pub mod tracing;
pub mod misc;
