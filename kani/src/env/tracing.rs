//! `tracing` switched off (any reachable tracing macro makes kani-compiler ICE otherwise; logging
//! is not the subject of any property).
use tracing::callsite::DefaultCallsite;
use tracing_core::{Interest, Metadata, field::ValueSet};

pub fn interest_never(_: &'static DefaultCallsite) -> Interest {
    Interest::never()
}
pub fn never_enabled(_: &Metadata<'static>, _: Interest) -> bool {
    false
}
pub fn dispatch_nop<'a: 'a>(_: &'static Metadata<'static>, _: &'a ValueSet<'_>) {}
