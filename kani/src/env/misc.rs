//! Clock and other environment stubs.
use chrono::{DateTime, Utc};

/// `chrono::Utc::now` — an arbitrary-but-fixed instant (time_received is never the subject of a property).
pub fn utc_now() -> DateTime<Utc> {
    DateTime::<Utc>::MIN_UTC
}

/// `true` when the harness runs natively under `cargo kani playback` (stubs are not applied there),
/// `false` under Kani, where `proof!{}` stubs it with [`is_native_false`]. Used only to relax exact
/// rational equalities to a rounding tolerance when a counterexample is replayed on real `rust_decimal`.
pub fn is_native() -> bool {
    true
}
pub fn is_native_false() -> bool {
    false
}
