//! Clock and other environment stubs.
use chrono::{DateTime, Utc};

/// `chrono::Utc::now` — an arbitrary-but-fixed instant (time_received is never the subject of a property).
pub fn utc_now() -> DateTime<Utc> {
    DateTime::<Utc>::MIN_UTC
}

/// `true` when the harness runs natively under `cargo kani playback` (stubs are not applied there),
/// `false` under Kani, where `proof!{}` stubs it with [`is_native_false`]. Used only to relax exact
/// rational equalities to a rounding tolerance when a counterexample is replayed on real `rust_decimal`.
pub fn is_native() -> bool {
    true
}
pub fn is_native_false() -> bool {
    false
}

/// `Arc<str>` drop / clone switched to no-ops. The only `Arc<str>` in the encoded code is the heap variant of
/// `SmolStr`, which no harness ever creates (every id is <= 23 bytes, i.e. inline); but once an order has been moved
/// through enum-typed slots CBMC no longer knows the variant tag of its ids, and exploring the (unreachable)
/// reference-counted branch of every drop costs minutes to out-of-memory. Reference counting is not the subject
/// of any property.
pub fn arc_str_drop_nop(_: &mut std::sync::Arc<str>) {}
pub fn arc_str_clone_same(a: &std::sync::Arc<str>) -> std::sync::Arc<str> {
    // never reached with a real heap string (asserted); produce a bitwise copy without touching the count
    unsafe { core::ptr::read(a) }
}

/// `Decimal::from_f64` on the exact-rational model: defined on the small non-negative integers the harnesses use
/// for public-trade prices (the real conversion returns the same value for them), `None` otherwise.
pub fn decimal_from_f64(n: f64) -> Option<rust_decimal::Decimal> {
    if n >= 0.0 && n < 256.0 {
        let k = n as u8;
        if k as f64 == n { Some(rust_decimal::Decimal::from(k)) } else { None }
    } else {
        None
    }
}

/// `alloc::fmt::format` (every `format!` in error paths) -> empty string: message text is never the subject of a property
/// and formatting machinery is among the most expensive code to execute symbolically.
pub fn fmt_format_empty(_: core::fmt::Arguments<'_>) -> String {
    String::new()
}
