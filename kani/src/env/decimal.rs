//! Exact-rational model of `rust_decimal::Decimal` (environment stub, see DESIGN.md §3.2).
//!
//! value = ±lo / (hi or 1) (mid must stay 0), scale 0, stored in the Decimal's own 128 bits, so every
//! untouched real method (`is_zero`, `abs`, `is_sign_negative`, `Neg`, `ZERO/ONE/TWO`,
//! `From<u64>`) keeps its meaning. Zero is always `+0/1`. Leaving the representable range
//! (|numerator| < 2^28, denominator < 2^16) is a failed check, never a wrap.
use core::cmp::Ordering;
use rust_decimal::Decimal;

pub const NUM_BITS: u32 = 28;
pub const DEN_BITS: u32 = 16;
const NUM_MASK: u32 = (1 << NUM_BITS) - 1;
const DEN_MASK: u32 = (1 << DEN_BITS) - 1;

/// Sign, magnitude of the numerator, denominator. The masks are no-ops on in-range values (the range
/// is asserted first); they make the zero high bits visible to CBMC's constant propagation so that
/// the 64-bit multipliers below collapse to NUM_BITS x DEN_BITS partial products.
#[inline]
fn parts(d: &Decimal) -> (bool, u64, u64) {
    let u = d.unpack();
    assert!(u.mid == 0 && u.lo <= NUM_MASK, "decmodel: numerator out of range");
    assert!(u.hi <= DEN_MASK, "decmodel: denominator out of range");
    assert!(u.scale == 0, "decmodel: scaled constant entered the model");
    let den = if u.hi == 0 { 1 } else { (u.hi & DEN_MASK) as u64 };
    (u.negative, (u.lo & NUM_MASK) as u64, den)
}

#[inline]
fn signed(neg: bool, mag: u64) -> i64 {
    if neg { -(mag as i64) } else { mag as i64 }
}

#[inline]
pub fn num(d: &Decimal) -> i64 {
    let (neg, m, _) = parts(d);
    signed(neg, m)
}

#[inline]
pub fn den(d: &Decimal) -> i64 {
    parts(d).2 as i64
}

/// |n| < 2^28 and d < 2^16: every intermediate product below stays under 2^56.
#[inline]
pub fn mk(n: i64, d: u64) -> Decimal {
    assert!(d > 0 && d <= DEN_MASK as u64, "decmodel: denominator out of range");
    let mag = n.unsigned_abs();
    assert!(mag <= NUM_MASK as u64, "decmodel: numerator out of range");
    if mag == 0 {
        return Decimal::ZERO; // zero is always +0/1, so the real is_zero() stays right
    }
    let hi = if d == 1 { 0 } else { d as u32 };
    Decimal::from_parts(mag as u32, 0, hi, n < 0, 0)
}

/// Integer-valued Decimal.
#[inline]
pub fn int(n: i64) -> Decimal {
    mk(n, 1)
}

// `'a: 'a` makes the lifetimes early-bound so the generic-parameter count matches the impl being stubbed
pub fn add<'a: 'a, 'b: 'b>(a: &'a Decimal, b: &'b Decimal) -> Decimal {
    let ((s1, m1, d1), (s2, m2, d2)) = (parts(a), parts(b));
    if d1 == d2 {
        mk(signed(s1, m1) + signed(s2, m2), d1)
    } else {
        mk(signed(s1, m1 * d2) + signed(s2, m2 * d1), d1 * d2)
    }
}
pub fn sub<'a: 'a, 'b: 'b>(a: &'a Decimal, b: &'b Decimal) -> Decimal {
    let ((s1, m1, d1), (s2, m2, d2)) = (parts(a), parts(b));
    if d1 == d2 {
        mk(signed(s1, m1) - signed(s2, m2), d1)
    } else {
        mk(signed(s1, m1 * d2) - signed(s2, m2 * d1), d1 * d2)
    }
}
pub fn mul<'a: 'a, 'b: 'b>(a: &'a Decimal, b: &'b Decimal) -> Decimal {
    let ((s1, m1, d1), (s2, m2, d2)) = (parts(a), parts(b));
    mk(signed(s1 != s2, m1 * m2), d1 * d2)
}
pub fn div<'a: 'a, 'b: 'b>(a: &'a Decimal, b: &'b Decimal) -> Decimal {
    let ((s1, m1, d1), (s2, m2, d2)) = (parts(a), parts(b));
    if m2 == 0 {
        panic!("Division by zero"); // the real operator panics too
    }
    mk(signed(s1 != s2, m1 * d2), d1 * m2)
}
pub fn cmp(a: &Decimal, b: &Decimal) -> Ordering {
    let ((s1, m1, d1), (s2, m2, d2)) = (parts(a), parts(b));
    if d1 == d2 {
        signed(s1, m1).cmp(&signed(s2, m2))
    } else {
        signed(s1, m1 * d2).cmp(&signed(s2, m2 * d1))
    }
}
/// `Some(parts)` when the value is inside the model's range, `None` otherwise (used by the total `checked_*` models).
#[inline]
fn try_parts(d: &Decimal) -> Option<(bool, u64, u64)> {
    let u = d.unpack();
    if u.mid == 0 && u.lo <= NUM_MASK && u.hi <= DEN_MASK && u.scale == 0 {
        let den = if u.hi == 0 { 1 } else { (u.hi & DEN_MASK) as u64 };
        Some((u.negative, (u.lo & NUM_MASK) as u64, den))
    } else {
        None
    }
}
#[inline]
fn try_mk(neg: bool, mag: u64, d: u64) -> Option<Decimal> {
    if d == 0 || d > DEN_MASK as u64 || mag > NUM_MASK as u64 {
        return None;
    }
    Some(mk(signed(neg, mag), d))
}

// The `checked_*` operations of the real library return None on overflow. The model keeps them total:
// an operand or result outside the model's range (e.g. Decimal::MAX used as an "infinite" marker by the
// ratio metrics) yields None instead of failing the run. Only unclaimed outputs depend on this.
pub fn checked_div(a: Decimal, b: Decimal) -> Option<Decimal> {
    let ((s1, m1, d1), (s2, m2, d2)) = (try_parts(&a)?, try_parts(&b)?);
    if m2 == 0 {
        return None;
    }
    try_mk(s1 != s2, m1 * d2, d1 * m2)
}
pub fn checked_mul(a: Decimal, b: Decimal) -> Option<Decimal> {
    let ((s1, m1, d1), (s2, m2, d2)) = (try_parts(&a)?, try_parts(&b)?);
    try_mk(s1 != s2, m1 * m2, d1 * d2)
}
pub fn checked_add(a: Decimal, b: Decimal) -> Option<Decimal> {
    try_parts(&a)?;
    try_parts(&b)?;
    Some(add(&a, &b))
}
pub fn checked_sub(a: Decimal, b: Decimal) -> Option<Decimal> {
    try_parts(&a)?;
    try_parts(&b)?;
    Some(sub(&a, &b))
}

/// `MathematicalOps::sqrt` as an injective uninterpreted-style function: `x -> x + 1` on in-range
/// non-negative values (distinguishable from the identity), identity on out-of-range markers, None on
/// negatives. Harnesses compute their expectation through the same call, so they only assert that the
/// code applies sqrt to the right argument.
pub fn sqrt(a: &Decimal) -> Option<Decimal> {
    match try_parts(a) {
        None => {
            if a.is_sign_negative() { None } else { Some(*a) }
        }
        Some((neg, m, d)) => {
            if neg && m != 0 {
                None
            } else if m + d > NUM_MASK as u64 {
                Some(*a)
            } else {
                Some(mk((m + d) as i64, d))
            }
        }
    }
}
