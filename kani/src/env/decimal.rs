//! Exact-rational model of `rust_decimal::Decimal` (environment stub, see DESIGN.md §3.2).
//!
//! value = ±(lo | mid<<32) / (hi or 1), scale 0, stored in the Decimal's own 128 bits, so every
//! untouched real method (`is_zero`, `abs`, `is_sign_negative`, `Neg`, `ZERO/ONE/TWO`,
//! `From<u64>`) keeps its meaning. Zero is always `+0/1`. Leaving the representable range
//! (numerator < 2^64, denominator < 2^32) is a failed check, never a wrap.
use core::cmp::Ordering;
use rust_decimal::Decimal;

#[inline]
pub fn num(d: &Decimal) -> i128 {
    let b = d.serialize(); // [flags(4) | lo(4) | mid(4) | hi(4)], little endian
    let lo = u32::from_le_bytes([b[4], b[5], b[6], b[7]]) as i128;
    let mid = u32::from_le_bytes([b[8], b[9], b[10], b[11]]) as i128;
    let mag = lo | (mid << 32);
    if d.is_sign_negative() { -mag } else { mag }
}

#[inline]
pub fn den(d: &Decimal) -> i128 {
    let b = d.serialize();
    let hi = u32::from_le_bytes([b[12], b[13], b[14], b[15]]) as i128;
    if hi == 0 { 1 } else { hi }
}

#[inline]
pub fn mk(n: i128, d: i128) -> Decimal {
    assert!(d > 0 && d < (1i128 << 32), "decmodel: denominator out of range");
    let mag = n.unsigned_abs();
    assert!(mag < (1u128 << 64), "decmodel: numerator out of range");
    if mag == 0 {
        return Decimal::ZERO; // zero is always +0/1, so the real is_zero() stays right
    }
    let hi = if d == 1 { 0 } else { d as u32 };
    Decimal::from_parts(mag as u32, (mag >> 32) as u32, hi, n < 0, 0)
}

/// Integer-valued Decimal.
#[inline]
pub fn int(n: i64) -> Decimal {
    mk(n as i128, 1)
}

// `'a: 'a` makes the lifetimes early-bound so the generic-parameter count matches the impl being stubbed
pub fn add<'a: 'a, 'b: 'b>(a: &'a Decimal, b: &'b Decimal) -> Decimal {
    let (n1, d1, n2, d2) = (num(a), den(a), num(b), den(b));
    if d1 == d2 { mk(n1 + n2, d1) } else { mk(n1 * d2 + n2 * d1, d1 * d2) }
}
pub fn sub<'a: 'a, 'b: 'b>(a: &'a Decimal, b: &'b Decimal) -> Decimal {
    let (n1, d1, n2, d2) = (num(a), den(a), num(b), den(b));
    if d1 == d2 { mk(n1 - n2, d1) } else { mk(n1 * d2 - n2 * d1, d1 * d2) }
}
pub fn mul<'a: 'a, 'b: 'b>(a: &'a Decimal, b: &'b Decimal) -> Decimal {
    mk(num(a) * num(b), den(a) * den(b))
}
pub fn div<'a: 'a, 'b: 'b>(a: &'a Decimal, b: &'b Decimal) -> Decimal {
    let (n1, d1, n2, d2) = (num(a), den(a), num(b), den(b));
    if n2 == 0 {
        panic!("Division by zero"); // the real operator panics too
    }
    if n2 < 0 { mk(-(n1 * d2), d1 * (-n2)) } else { mk(n1 * d2, d1 * n2) }
}
pub fn cmp(a: &Decimal, b: &Decimal) -> Ordering {
    (num(a) * den(b)).cmp(&(num(b) * den(a)))
}
pub fn checked_div(a: Decimal, b: Decimal) -> Option<Decimal> {
    if num(&b) == 0 { None } else { Some(div(&a, &b)) }
}
pub fn checked_mul(a: Decimal, b: Decimal) -> Option<Decimal> {
    Some(mul(&a, &b))
}
pub fn checked_add(a: Decimal, b: Decimal) -> Option<Decimal> {
    Some(add(&a, &b))
}
pub fn checked_sub(a: Decimal, b: Decimal) -> Option<Decimal> {
    Some(sub(&a, &b))
}

/// Exact rational equality (cross-multiplied), usable from assertions without going through stubs.
#[inline]
pub fn eq(a: &Decimal, b: &Decimal) -> bool {
    num(a) * den(b) == num(b) * den(a)
}
#[inline]
pub fn lt(a: &Decimal, b: &Decimal) -> bool {
    num(a) * den(b) < num(b) * den(a)
}
#[inline]
pub fn le(a: &Decimal, b: &Decimal) -> bool {
    num(a) * den(b) <= num(b) * den(a)
}
