//! C18 — reported drawdowns are the peak-to-trough declines of the value curve.
use crate::{gens::*, proof};
use barter::{
    Timed,
    statistic::metric::drawdown::{
        Drawdown, DrawdownGenerator,
        max::{MaxDrawdown, MaxDrawdownGenerator},
        mean::{MeanDrawdown, MeanDrawdownGenerator},
    },
};
use chrono::{DateTime, TimeDelta, Utc};
use rust_decimal::Decimal;

/// One step of the generator from an ARBITRARY state with a positive peak. Ghost `trough`: the lowest value
/// seen since the peak (so drawdown_max = (peak − trough)/peak).
fn step(bits: u32) {
    let peak = dec_pos(bits);
    let trough = dec_i(bits);
    assume(trough <= peak);
    let (s0, s1, s2): (u8, u8, u8) = (any_u8_lt(8), any_u8_lt(8), any_u8_lt(8));
    assume(s0 <= s1 && s1 <= s2);
    let mut generator = DrawdownGenerator {
        peak: Some(peak),
        drawdown_max: (peak - trough) / peak,
        time_peak: Some(time_at(s0)),
        time_now: time_at(s1),
    };
    let v = dec_i(bits);
    let out = generator.update(Timed::new(v, time_at(s2)));
    assert!(generator.time_now == time_at(s2));
    if v > peak {
        // recovery: the completed drawdown (if one occurred) is reported and the generator restarts at the new peak
        if trough < peak {
            let dd = out.as_ref().expect("C18: completed drawdown not reported at recovery");
            assert!(deq(dd.value * peak, peak - trough), "C18: drawdown value is not the peak-to-trough decline");
            assert!(dd.time_start == time_at(s0), "C18: drawdown does not start at the peak's time");
            assert!(dd.time_end == time_at(s2), "C18: drawdown does not end at the recovery time");
        } else {
            assert!(out.is_none(), "C18: drawdown reported although the value never declined");
        }
        assert!(generator.peak == Some(v) && generator.time_peak == Some(time_at(s2)) && generator.drawdown_max.is_zero(),
            "C18: generator not reset at the new peak");
    } else {
        assert!(out.is_none(), "C18: drawdown reported before recovery above the peak");
        let low = if v < trough { v } else { trough };
        assert!(generator.peak == Some(peak) && generator.time_peak == Some(time_at(s0)));
        assert!(deq(generator.drawdown_max * peak, peak - low), "C18: current drawdown is not the largest decline from the peak");
    }
    // generate(): the decline in progress is the current drawdown
    let cur = generator.generate();
    if generator.drawdown_max.is_zero() {
        assert!(cur.is_none());
    } else {
        let c = cur.as_ref().expect("C18: decline in progress not reported as current drawdown");
        assert!(c.value == generator.drawdown_max && Some(c.time_start) == generator.time_peak && c.time_end == time_at(s2));
    }
    kani::cover!(v > peak && trough < peak, "recovery with drawdown");
    kani::cover!(v > peak && trough == peak, "new peak without drawdown");
    kani::cover!(v == peak, "exactly back at the peak");
    kani::cover!(v < trough, "deeper trough");
    kani::cover!(v < peak && v > trough, "shallower decline");
}

proof! {
    #[kani::unwind(8)]
    fn c18_q_generator_step() { step(3) }
}
proof! {
    #[kani::unwind(8)]
    fn c18_t_generator_step_wide() { step(4) }
}

// first ever value
proof! {
    #[kani::unwind(8)]
    fn c18_q_generator_first_value() {
        let mut generator = DrawdownGenerator::default();
        let v = dec_i(3);
        let out = generator.update(Timed::new(v, time_at(3)));
        assert!(out.is_none());
        assert!(generator.peak == Some(v) && generator.time_peak == Some(time_at(3)) && generator.time_now == time_at(3));
        assert!(generator.drawdown_max.is_zero());
        assert!(generator.generate().is_none());
        let init = DrawdownGenerator::init(Timed::new(v, time_at(3)));
        assert!(init == generator, "C18: init differs from first update");
        kani::cover!(v > Decimal::ZERO, "reached");
    }
}

/// k-step: feed K arbitrary points after an initial positive value and compare the sequence of reported
/// drawdowns with an independent (quadratic) peak-to-trough decomposition of the curve.
fn curve<const K: usize>(bits: u32) {
    let mut vals = [Decimal::ZERO; K];
    let mut ts = [0u8; K];
    let mut i = 0;
    while i < K {
        vals[i] = if i == 0 { dec_pos(bits) } else { dec_i(bits) };
        let t = any_u8_lt(8);
        assume(i == 0 || t >= ts[i - 1]);
        ts[i] = t;
        i += 1;
    }
    let mut generator = DrawdownGenerator::init(Timed::new(vals[0], time_at(ts[0])));
    let mut reported: [Option<Drawdown>; K] = core::array::from_fn(|_| None);
    let mut j = 1;
    while j < K {
        reported[j] = generator.update(Timed::new(vals[j], time_at(ts[j])));
        j += 1;
    }
    // reference: point j completes a drawdown iff it exceeds the running maximum M of points 0..j and some point
    // after the first occurrence of M (and before j) lies below M; its value is (M − min)/M.
    let mut n_reported = 0;
    let mut j = 1;
    while j < K {
        let mut m = vals[0];
        let mut m_at = 0;
        let mut a = 1;
        while a < j {
            if vals[a] > m { m = vals[a]; m_at = a; }
            a += 1;
        }
        let mut lo = m;
        let mut a = m_at + 1;
        while a < j {
            if vals[a] < lo { lo = vals[a]; }
            a += 1;
        }
        if vals[j] > m && lo < m {
            let dd = reported[j].as_ref().expect("C18: completed drawdown not reported");
            assert!(deq(dd.value * m, m - lo), "C18: reported drawdown is not the largest relative decline from the running maximum");
            assert!(dd.time_start == time_at(ts[m_at]) && dd.time_end == time_at(ts[j]), "C18: drawdown period is not [time of maximum, recovery time]");
            n_reported += 1;
        } else {
            assert!(reported[j].is_none(), "C18: spurious drawdown reported");
        }
        j += 1;
    }
    kani::cover!(n_reported == 1, "one completed drawdown");
    kani::cover!(K < 5 || n_reported == 2, "two completed drawdowns (curves of 5+ points)");
    core::mem::forget(reported);
}

proof! {
    #[kani::unwind(8)]
    fn c18_q_curve_k4() { curve::<4>(2) }
}
proof! {
    #[kani::unwind(8)]
    fn c18_t_curve_k5() { curve::<5>(3) }
}

fn any_drawdown(bits: u32) -> Drawdown {
    let (a, b): (u8, u8) = (any_u8_lt(8), any_u8_lt(8));
    assume(a <= b);
    Drawdown { value: dec_q(bits, 3), time_start: time_at(a), time_end: time_at(b) }
}

// maximum drawdown: the larger of the two by depth (ties keep the earlier one)
proof! {
    #[kani::unwind(8)]
    fn c18_q_max_step() {
        let has = any_bool();
        let current = any_drawdown(3);
        let next = any_drawdown(3);
        let mut generator = if has { MaxDrawdownGenerator::init(current.clone()) } else { MaxDrawdownGenerator::default() };
        generator.update(&next);
        let got = generator.generate().expect("C18: no maximum after an update").0;
        if has && !(next.value > current.value) {
            assert!(got == current, "C18: maximum drawdown replaced by a smaller or equal one");
        } else {
            assert!(got == next, "C18: larger drawdown did not become the maximum");
        }
        kani::cover!(has && next.value > current.value, "superseded");
        kani::cover!(has && next.value == current.value, "tie");
        kani::cover!(!has, "first");
    }
}

// mean drawdown: running mean of depth (exact) and of duration in integer milliseconds (the implementation's
// truncating recurrence, bounded by its operands)
proof! {
    #[kani::unwind(8)]
    fn c18_q_mean_step() {
        let n = any_u8_lt(5);
        let s = dec_q(4, 3); // ghost: sum of depths so far
        let mean_ms = any_int_in(0, 8000);
        let mut generator = if n == 0 { MeanDrawdownGenerator::default() } else {
            MeanDrawdownGenerator { count: n as u64, mean_drawdown: Some(MeanDrawdown { mean_drawdown: s / Decimal::from(n), mean_drawdown_ms: mean_ms }) }
        };
        let next = any_drawdown(3);
        let dur = next.duration().num_milliseconds();
        generator.update(&next);
        assert!(generator.count == n as u64 + 1, "C18: drawdown count");
        let got = generator.generate().expect("C18: no mean after an update");
        if n == 0 {
            assert!(got.mean_drawdown == next.value && got.mean_drawdown_ms == dur, "C18: first mean is the first drawdown");
        } else {
            assert!(deq(got.mean_drawdown * Decimal::from(n + 1), s + next.value), "C18: mean depth is not the average of the drawdowns");
            assert!(got.mean_drawdown_ms == mean_ms + (dur - mean_ms) / (n as i64 + 1), "C18: mean duration recurrence");
            let (lo, hi) = if mean_ms < dur { (mean_ms, dur) } else { (dur, mean_ms) };
            assert!(lo <= got.mean_drawdown_ms && got.mean_drawdown_ms <= hi, "C18: mean duration outside its operands");
        }
        kani::cover!(n == 0, "first");
        kani::cover!(n == 3 && dur > mean_ms, "later");
    }
}

// --- feeding of the generators (anchors: summary/asset.rs, summary/instrument.rs) ------------------------------
// The asset tear sheet's drawdown generators must be those of the asset's EQUITY curve (total balance): after
// init(b0) and two balance snapshots the internal generator equals a reference DrawdownGenerator fed the totals,
// and max / mean generators received exactly the drawdowns it emitted.
proof! {
    #[kani::unwind(8)]
    fn c18_q_asset_feed() {
        use barter::{engine::state::asset::AssetState, statistic::summary::asset::TearSheetAssetGenerator};
        use barter_execution::balance::{AssetBalance, Balance};
        use barter_instrument::asset::AssetIndex;
        use barter_integration::snapshot::Snapshot;
        let balance = |bits: u32| { let total = dec_pos(bits); let free = dec_u(bits); assume(free <= total); Balance { total, free } };
        let (t0, t1, t2) = (any_u8_lt(6), any_u8_lt(6), any_u8_lt(6));
        assume(t0 <= t1 && t1 <= t2);
        let b0 = balance(2);
        let mut generator = TearSheetAssetGenerator::init(&Timed::new(b0, time_at(t0)));
        let mut reference = DrawdownGenerator::init(Timed::new(b0.total, time_at(t0)));
        let (mut ref_max, mut ref_mean) = (MaxDrawdownGenerator::default(), MeanDrawdownGenerator::default());
        let b1 = balance(2);
        let b2 = balance(3);
        let feed = |g: &mut TearSheetAssetGenerator, r: &mut DrawdownGenerator, rmax: &mut MaxDrawdownGenerator, rmean: &mut MeanDrawdownGenerator, b: Balance, t: u8| {
            let snapshot = AssetBalance { asset: AssetIndex(0), balance: b, time_exchange: time_at(t) };
            g.update_from_balance(Snapshot(&snapshot));
            if let Some(dd) = r.update(Timed::new(b.total, time_at(t))) {
                rmax.update(&dd);
                rmean.update(&dd);
            }
        };
        feed(&mut generator, &mut reference, &mut ref_max, &mut ref_mean, b1, t1);
        feed(&mut generator, &mut reference, &mut ref_max, &mut ref_mean, b2, t2);
        assert!(generator.drawdown == reference, "C18: the asset's drawdown generator is not the one of its total-balance curve");
        assert!(generator.drawdown_max == ref_max && generator.drawdown_mean == ref_mean, "C18: max / mean drawdown did not receive exactly the completed drawdowns");
        assert!(generator.balance_now == Some(b2), "C18: latest balance not recorded");
        kani::cover!(ref_max.max.is_some(), "a drawdown completed");
        kani::cover!(b0.free < b0.total && b1.total < b0.total, "seed balance with locked funds, then a dip");
    }
}

proof! {
    #[kani::unwind(8)]
    fn c18_twin_must_fail() {
        let mut generator = DrawdownGenerator::default();
        let _ = generator.update(Timed::new(dec_i(2), time_at(1)));
        assert!(false, "twin");
    }
}
