//! C17 — running dataset statistics equal the statistics of the whole dataset.
//!
//! Ghosts: n = number of values, S = Σx, Q = Σx². Invariant I(n,S,Q): count = n, sum = S, mean = S/n,
//! M = Q − S²/n, variance = M/n, range activated iff n > 0, low <= mean <= high, and n·Q >= S²
//! (Cauchy–Schwarz, true of every real dataset). One arbitrary value preserves I — hence after any
//! sequence the fields equal the batch formulas of (n,S,Q), which are symmetric in the values
//! (order-independence), variance >= 0 and the mean lies within the range.
use crate::{gens::*, proof};
use barter::statistic::summary::dataset::{
    DataSetSummary,
    dispersion::{Dispersion, Range},
};
use rust_decimal::{Decimal, MathematicalOps};

fn d(v: i64) -> Decimal {
    Decimal::from(v)
}

/// Arbitrary summary satisfying the invariant for ghosts (n, s, q); returns (summary, low, high).
fn any_summary(n_max: u8, x_max: i8) -> (DataSetSummary, u8, i64, i64) {
    let n = any_u8_lt(n_max + 1);
    let xm = x_max as i64;
    let s = any_int_in(-xm * n_max as i64, xm * n_max as i64);
    let q = any_int_in(0, xm * xm * n_max as i64);
    assume(s.abs() <= xm * n as i64);
    assume(q <= xm * xm * n as i64);
    assume((n as i64) * q >= s * s);
    if n == 0 {
        return (DataSetSummary::default(), 0, 0, 0);
    }
    let nn = d(n as i64);
    let mean = d(s) / nn;
    let m = d(q) - d(s) * d(s) / nn;
    let variance = m / nn;
    let low = dec_i(4);
    let high = dec_i(4);
    assume(low <= mean && mean <= high);
    assume(low >= d(-xm) && high <= d(xm));
    let summary = DataSetSummary {
        count: nn,
        sum: d(s),
        mean,
        dispersion: Dispersion {
            range: Range { activated: true, high, low },
            recurrence_relation_m: m,
            variance,
            std_dev: variance.abs().sqrt().unwrap(),
        },
    };
    (summary, n, s, q)
}

fn check_invariant(sum: &DataSetSummary, n: i64, s: i64, q: i64) {
    let nn = d(n);
    assert!(sum.count == nn, "C17: count != number of values");
    assert!(deq(sum.sum, d(s)), "C17: sum != sum of the values");
    assert!(deq(sum.mean * nn, d(s)), "C17: mean != sum / count");
    assert!(deq(sum.dispersion.recurrence_relation_m * nn, d(q) * nn - d(s) * d(s)), "C17: M != Σx² − (Σx)²/n");
    assert!(deq(sum.dispersion.variance * nn, sum.dispersion.recurrence_relation_m), "C17: variance != M / n");
    assert!(sum.dispersion.variance >= Decimal::ZERO, "C17: negative variance");
    assert!(deq(sum.dispersion.std_dev, sum.dispersion.variance.abs().sqrt().unwrap()), "C17: std_dev != sqrt(variance)");
    assert!(sum.dispersion.range.activated);
    assert!(sum.dispersion.range.low <= sum.mean && sum.mean <= sum.dispersion.range.high, "C17: mean outside the range");
}

fn step(n_max: u8, x_max: i8) {
    let (mut summary, n, s, q) = any_summary(n_max, x_max);
    let (low0, high0, activated0) = (summary.dispersion.range.low, summary.dispersion.range.high, summary.dispersion.range.activated);
    let x = any_i8_in(-x_max, x_max);
    let xv = d(x as i64);
    summary.update(xv);
    check_invariant(&summary, n as i64 + 1, s + x as i64, q + (x as i64) * (x as i64));
    // range = running min / max
    let (el, eh) = if activated0 {
        (if xv < low0 { xv } else { low0 }, if xv > high0 { xv } else { high0 })
    } else {
        (xv, xv)
    };
    assert!(summary.dispersion.range.low == el && summary.dispersion.range.high == eh, "C17: range is not the running min / max");
    kani::cover!(n == 0, "first value");
    kani::cover!(n == n_max && x < 0 && s > 0, "later value, mixed signs");
    kani::cover!(n > 0 && summary.dispersion.variance > Decimal::ZERO, "positive variance");
}

proof! {
    #[kani::unwind(8)]
    fn c17_q_step() { step(3, 3) }
}
proof! {
    #[kani::unwind(8)]
    fn c17_t_step_wide() { step(5, 7) }
}

// direct: three values in two orders from the empty summary
proof! {
    #[kani::unwind(8)]
    fn c17_q_three_values_two_orders() {
        let xs: [i8; 3] = [any_i8_in(-3, 3), any_i8_in(-3, 3), any_i8_in(-3, 3)];
        let mut a = DataSetSummary::default();
        let mut b = DataSetSummary::default();
        a.update(d(xs[0] as i64)); a.update(d(xs[1] as i64)); a.update(d(xs[2] as i64));
        b.update(d(xs[2] as i64)); b.update(d(xs[0] as i64)); b.update(d(xs[1] as i64));
        let s = xs[0] as i64 + xs[1] as i64 + xs[2] as i64;
        let q = (xs[0] as i64).pow(2) + (xs[1] as i64).pow(2) + (xs[2] as i64).pow(2);
        check_invariant(&a, 3, s, q);
        check_invariant(&b, 3, s, q);
        assert!(deq(a.mean, b.mean) && deq(a.dispersion.variance, b.dispersion.variance), "C17: order-dependent statistics");
        assert!(a.dispersion.range == b.dispersion.range, "C17: order-dependent range");
        kani::cover!(a.dispersion.variance > Decimal::ZERO && xs[0] != xs[1] && xs[1] != xs[2], "distinct values");
    }
}

proof! {
    #[kani::unwind(8)]
    fn c17_twin_must_fail() {
        let mut a = DataSetSummary::default();
        a.update(dec_i(2));
        assert!(false, "twin");
    }
}
