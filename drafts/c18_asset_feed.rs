// to be appended to c18_drawdown.rs
// --- feeding of the generators (anchors: summary/asset.rs, summary/instrument.rs) ------------------------------
// The asset tear sheet's drawdown generators must be those of the asset's EQUITY curve (total balance): after
// init(b0) and two balance snapshots the internal generator equals a reference DrawdownGenerator fed the totals,
// and max / mean generators received exactly the drawdowns it emitted.
proof! {
    #[kani::unwind(8)]
    fn c18_q_asset_feed() {
        use barter::{engine::state::asset::AssetState, statistic::summary::asset::TearSheetAssetGenerator};
        use barter_execution::balance::{AssetBalance, Balance};
        use barter_instrument::asset::AssetIndex;
        use barter_integration::snapshot::Snapshot;
        let balance = |bits: u32| { let total = dec_pos(bits); let free = dec_u(bits); assume(free <= total); Balance { total, free } };
        let (t0, t1, t2) = (any_u8_lt(6), any_u8_lt(6), any_u8_lt(6));
        assume(t0 <= t1 && t1 <= t2);
        let b0 = balance(2);
        let mut generator = TearSheetAssetGenerator::init(&Timed::new(b0, time_at(t0)));
        let mut reference = DrawdownGenerator::init(Timed::new(b0.total, time_at(t0)));
        let (mut ref_max, mut ref_mean) = (MaxDrawdownGenerator::default(), MeanDrawdownGenerator::default());
        let b1 = balance(2);
        let b2 = balance(3);
        let feed = |g: &mut TearSheetAssetGenerator, r: &mut DrawdownGenerator, rmax: &mut MaxDrawdownGenerator, rmean: &mut MeanDrawdownGenerator, b: Balance, t: u8| {
            let snapshot = AssetBalance { asset: AssetIndex(0), balance: b, time_exchange: time_at(t) };
            g.update_from_balance(Snapshot(&snapshot));
            if let Some(dd) = r.update(Timed::new(b.total, time_at(t))) {
                rmax.update(&dd);
                rmean.update(&dd);
            }
        };
        feed(&mut generator, &mut reference, &mut ref_max, &mut ref_mean, b1, t1);
        feed(&mut generator, &mut reference, &mut ref_max, &mut ref_mean, b2, t2);
        assert!(generator.drawdown == reference, "C18: the asset's drawdown generator is not the one of its total-balance curve");
        assert!(generator.drawdown_max == ref_max && generator.drawdown_mean == ref_mean, "C18: max / mean drawdown did not receive exactly the completed drawdowns");
        assert!(generator.balance_now == Some(b2), "C18: latest balance not recorded");
        kani::cover!(ref_max.max.is_some(), "a drawdown completed");
        kani::cover!(b0.free < b0.total && b1.total < b0.total, "seed balance with locked funds, then a dip");
    }
}
