//! C08 — the simulated exchange keeps a consistent ledger of balances, orders and fills (needs the container hook).
//!
//! One step of the real `MockExchange::open_order` from an ARBITRARY account (base / quote balances, fee percentage,
//! order sequence) with an arbitrary request (side, kind, known / unknown instrument, price, quantity).
use crate::{gens::*, proof};
use barter_execution::{
    balance::{AssetBalance, Balance},
    exchange::mock::{MockExchange, account::AccountState},
    order::{
        OrderKey, OrderKind, TimeInForce,
        id::{ClientOrderId, StrategyId},
        request::{OrderRequestOpen, RequestOpen},
    },
};
use barter_instrument::{
    Side, Underlying,
    asset::name::AssetNameExchange,
    exchange::ExchangeId,
    instrument::{Instrument, kind::InstrumentKind, name::{InstrumentNameExchange, InstrumentNameInternal}, quote::InstrumentQuoteAsset},
};
use rust_decimal::Decimal;
use smol_str::SmolStr;

fn asset(name: &str) -> AssetNameExchange {
    AssetNameExchange::new(SmolStr::new_inline(name))
}
fn iname(name: &str) -> InstrumentNameExchange {
    InstrumentNameExchange::new(SmolStr::new_inline(name))
}
fn balance_of(name: &str, amount: Decimal) -> AssetBalance<AssetNameExchange> {
    AssetBalance { asset: asset(name), balance: Balance { total: amount, free: amount }, time_exchange: time_at(0) }
}

#[cfg(barter_rs_barter_rs_verif)]
fn maps(base: Decimal, quote: Decimal) -> (
    barter_integration::collection::verif::VecMap<AssetNameExchange, AssetBalance<AssetNameExchange>>,
    barter_integration::collection::verif::VecMap<InstrumentNameExchange, Instrument<ExchangeId, AssetNameExchange>>,
) {
    use barter_integration::collection::verif::VecMap;
    (
        VecMap { len: 2, slots: [Some((asset("btc"), balance_of("btc", base))), Some((asset("usdt"), balance_of("usdt", quote))), None, None] },
        VecMap { len: 1, slots: [Some((iname("btcusdt"), instrument())), None, None, None] },
    )
}
#[cfg(not(barter_rs_barter_rs_verif))]
fn maps(base: Decimal, quote: Decimal) -> (
    fnv::FnvHashMap<AssetNameExchange, AssetBalance<AssetNameExchange>>,
    fnv::FnvHashMap<InstrumentNameExchange, Instrument<ExchangeId, AssetNameExchange>>,
) {
    (
        [(asset("btc"), balance_of("btc", base)), (asset("usdt"), balance_of("usdt", quote))].into_iter().collect(),
        [(iname("btcusdt"), instrument())].into_iter().collect(),
    )
}

fn instrument() -> Instrument<ExchangeId, AssetNameExchange> {
    Instrument {
        exchange: ExchangeId::Mock,
        name_internal: InstrumentNameInternal(SmolStr::new_inline("mock_btc_usdt")),
        name_exchange: iname("btcusdt"),
        underlying: Underlying { base: asset("btc"), quote: asset("usdt") },
        quote: InstrumentQuoteAsset::UnderlyingQuote,
        kind: InstrumentKind::Spot,
        spec: None,
    }
}

/// The two tokio channel handles of a MockExchange are never touched by `open_order`. Under Kani they are dangling
/// one-word handles (creating real channels drags the tokio runtime structures into the formula: out of memory);
/// in the native replay build they are real channels.
#[cfg(not(verif_native))]
fn channels() -> (tokio::sync::mpsc::UnboundedReceiver<barter_execution::exchange::mock::request::MockExchangeRequest>, tokio::sync::broadcast::Sender<barter_execution::UnindexedAccountEvent>) {
    unsafe { (core::mem::transmute::<usize, _>(8usize), core::mem::transmute::<usize, _>(8usize)) }
}
#[cfg(verif_native)]
fn channels() -> (tokio::sync::mpsc::UnboundedReceiver<barter_execution::exchange::mock::request::MockExchangeRequest>, tokio::sync::broadcast::Sender<barter_execution::UnindexedAccountEvent>) {
    let (request_tx, request_rx) = tokio::sync::mpsc::unbounded_channel();
    let (event_tx, event_rx) = tokio::sync::broadcast::channel(2);
    core::mem::forget((request_tx, event_rx));
    (request_rx, event_tx)
}

fn exchange(base: Decimal, quote: Decimal, fees_percent: Decimal, sequence: u64) -> MockExchange {
    let (request_rx, event_tx) = channels();
    let (balances, instruments) = maps(base, quote);
    MockExchange {
        exchange: ExchangeId::Mock,
        latency_ms: 0,
        fees_percent,
        request_rx,
        event_tx,
        instruments,
        account: AccountState::new(balances, Default::default(), Default::default(), Vec::new()),
        order_sequence: sequence,
        time_exchange_latest: time_at(2),
    }
}

fn balance_now(x: &mut MockExchange, name: &str) -> Decimal {
    let b = x.account.balance_mut(&asset(name)).expect("C08: balance entry lost");
    assert!(b.balance.total == b.balance.free, "C08: total and free diverged for a market-order-only exchange");
    b.balance.total
}

fn step(side: Side) {
    let (base0, quote0) = (dec_u(3), dec_u(3));
    let fee_pct = match any_u8_lt(3) { 0 => Decimal::ZERO, 1 => Decimal::ONE / Decimal::TWO, _ => Decimal::ONE / Decimal::from(4) };
    let mut x = exchange(base0, quote0, fee_pct, 7);
    let known = any_bool();
    let kind = if any_bool() { OrderKind::Market } else { OrderKind::Limit };
    let (price, quantity) = (dec_pos(2), dec_pos(2));
    let request = OrderRequestOpen {
        key: OrderKey { exchange: ExchangeId::Mock, instrument: if known { iname("btcusdt") } else { iname("ethusdt") }, strategy: StrategyId(SmolStr::new_inline("s")), cid: ClientOrderId(SmolStr::new_inline("c")) },
        state: RequestOpen { side, price, quantity, kind, time_in_force: TimeInForce::ImmediateOrCancel },
    };
    let (response, notifications) = x.open_order(request);
    let (base1, quote1) = (balance_now(&mut x, "btc"), balance_now(&mut x, "usdt"));
    // the asset being spent: quote for a buy (price x quantity plus fees), base for a sell (quantity plus fees)
    let required = match side {
        Side::Buy => price * quantity + price * quantity * fee_pct,
        Side::Sell => quantity + quantity * fee_pct,
    };
    let available = match side { Side::Buy => quote0, Side::Sell => base0 };
    let should_accept = kind == OrderKind::Market && known && available >= required;
    let accepted = response.state.is_ok();
    assert!(accepted == should_accept, "C08: order accepted iff the account holds enough of the asset being spent");
    assert!(notifications.is_some() == accepted, "C08: notifications present iff the order was accepted");
    assert!(base1 >= Decimal::ZERO && quote1 >= Decimal::ZERO, "C08: negative balance");
    if accepted {
        match side {
            Side::Buy => assert!(deq(quote1, quote0 - required) && base1 == base0, "C08: a buy must debit exactly the quote asset by price x quantity plus fees and nothing else"),
            Side::Sell => assert!(deq(base1, base0 - required) && quote1 == quote0, "C08: a sell must debit exactly the base asset by quantity plus fees and nothing else"),
        }
        assert!(x.order_sequence == 8, "C08: order sequence not advanced by one");
        let open = response.state.as_ref().unwrap();
        assert!(open.filled_quantity == quantity, "C08: market order not fully filled");
        let n = notifications.as_ref().unwrap();
        assert!(n.trade.order_id == open.id && n.trade.id.0 == open.id.0, "C08: fill ids");
        assert!(n.trade.side == side && n.trade.price == price && n.trade.quantity == quantity, "C08: fill does not reflect the order");
        assert!(deq(n.trade.fees.fees, price * quantity * fee_pct), "C08: fee is not the configured percentage of the order value");
        let spent = match side { Side::Buy => "usdt", Side::Sell => "btc" };
        assert!(n.balance.0.asset == asset(spent) && deq(n.balance.0.balance.total, balance_now(&mut x, spent)), "C08: balance notification is not the spent asset's new balance");
    } else {
        assert!(base1 == base0 && quote1 == quote0, "C08: a rejected order changed a balance");
        assert!(x.order_sequence == 7, "C08: a rejected order consumed an order id");
    }
    kani::cover!(accepted, "accepted");
    kani::cover!(!accepted && kind == OrderKind::Market && known, "insufficient balance");
    kani::cover!(!known, "unknown instrument");
    core::mem::forget((x, response, notifications));
}

proof! { #[kani::unwind(26)] fn c08_q_buy() { step(Side::Buy) } }
proof! { #[kani::unwind(26)] fn c08_q_sell() { step(Side::Sell) } }
proof! {
    #[kani::unwind(26)]
    fn c08_twin_must_fail() {
        step(Side::Buy);
        assert!(false, "twin");
    }
}
