#!/bin/bash
# Runs the repository's baseline test suite with the verification guard OFF (no RUSTFLAGS cfg).
# Debug info is switched off only to keep the test binaries linkable/small in this sandbox
# (a default dev-profile build of the workspace produces >4 GiB of debug sections and fails to link).
set -o pipefail
cd /repo
unset RUSTFLAGS
export CARGO_NET_OFFLINE=true CARGO_PROFILE_DEV_DEBUG=0 CARGO_PROFILE_TEST_DEBUG=0
exec cargo test --workspace --lib --tests --no-fail-fast --offline "$@"
