#!/bin/bash
# runs the quick tier of every claimed property on the current tree; one summary line each
cd /verif
for p in $(python3 -c "import sys; sys.path.insert(0,'lib'); from props import PROPS; print(' '.join(sorted(PROPS)))"); do
  s=$(date +%s); out=$(./check $p --tier ${1:-quick} 2>&1 | tail -1); e=$(date +%s)
  echo "REGRESS $p $((e-s))s :: $out"
done
