#!/bin/bash
# usage: run_seed.sh <seed id e.g. C02-1> [tier]   - applies seeded/<id>/patch.diff to /repo, runs the property's check, reverts.
set -u
ID=$1; TIER=${2:-quick}; PROP=${ID%%-*}
cd /verif
if ! git -C /repo diff --quiet; then echo "refusing: /repo has uncommitted changes"; exit 3; fi
git -C /repo apply /verif/seeded/$ID/patch.diff || { echo "patch does not apply"; exit 3; }
START=$(date +%s)
./check $PROP --tier $TIER > /tmp/seedrun_$ID.log 2>&1; RC=$?
git -C /repo checkout -- .
END=$(date +%s)
V=$(grep -c "^VIOLATION" /tmp/seedrun_$ID.log)
echo "SEEDRUN $ID tier=$TIER exit=$RC violation_lines=$V wall=$((END-START))s :: $(grep -A1 '^VIOLATION' /tmp/seedrun_$ID.log | tail -1 | cut -c1-200)"
cp /verif/evidence/$PROP.json /tmp/seedrun_$ID.evidence.json 2>/dev/null
