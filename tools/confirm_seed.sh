#!/bin/bash
# usage: confirm_seed.sh <seed_dir> <n>    e.g. confirm_seed.sh /tmp/seed_c02 1
# Confirms, in a scratch worktree of /repo HEAD (outside /repo and /verif), that patch<n>.diff
#  (1) applies and compiles, (2) passes the existing suite, (3) makes demo<n>.rs fail, and that (4) demo<n>.rs passes without it.
# Prints one summary line: SEED <dir> <n> apply=.. suite=.. demo_with=.. demo_without=..
set -u
SEED=$1; N=$2
WT=/tmp/wt_confirm
export CARGO_NET_OFFLINE=true CARGO_PROFILE_DEV_DEBUG=0 CARGO_PROFILE_TEST_DEBUG=0 CARGO_TARGET_DIR=/tmp/wt_confirm_target
if [ ! -d $WT ]; then git -C /repo worktree add -q --detach $WT HEAD; fi
cd $WT && git checkout -q --detach $(git -C /repo rev-parse HEAD) && git checkout -q -- . && git clean -fdq
DEMO=$SEED/demo$N.rs
# placement path from the demo header (first path ending in .rs under a tests/ directory)
PLACE=$(grep -o '[a-z-]*/tests/[A-Za-z0-9_]*\.rs' $DEMO | head -1)
CRATE=${PLACE%%/*}; TESTNAME=$(basename $PLACE .rs)
apply=ok; git apply $SEED/patch$N.diff 2>/tmp/confirm_apply.err || apply=FAIL
suite=skip; with=skip; without=skip
if [ $apply = ok ]; then
  if cargo test --workspace --lib --tests --no-fail-fast --offline >/tmp/confirm_suite.log 2>&1; then suite=pass; else suite=FAIL; fi
  mkdir -p $(dirname $PLACE); cp $DEMO $PLACE
  if cargo test -p $CRATE --test $TESTNAME --offline >/tmp/confirm_with.log 2>&1; then with=pass; else with=fail; fi
  git apply -R $SEED/patch$N.diff
  if cargo test -p $CRATE --test $TESTNAME --offline >/tmp/confirm_without.log 2>&1; then without=pass; else without=fail; fi
  rm -f $PLACE; git checkout -q -- . ; git clean -fdq
fi
echo "SEED $SEED $N apply=$apply suite=$suite demo_with=$with demo_without=$without place=$PLACE"
